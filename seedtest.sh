#!/bin/bash
# seedtest.sh <seed-dir with patch.diff, demo_test.go> <worktree> <PROP> [extra vpcheck args]
# 1. confirm in the scratch worktree: demo passes without patch, fails with it, existing pkg tests pass with it
# 2. apply to /repo, run the check, revert.
export GOFLAGS=-mod=mod GOPROXY=off GOSUMDB=off GOTOOLCHAIN=local
SD=$1; WT=$2; PROP=$3; shift 3
pkgdir=$(head -1 $SD/demo_test.go | sed -n 's#.*place in: *\([a-z0-9_/]*\).*#\1#p' | sed 's#/$##')
[ -z "$pkgdir" ] && { echo "no pkgdir in demo"; exit 2; }
cd $WT && git checkout -q -- . && git clean -fdq -e _seed && git checkout -q --detach main
cp $SD/demo_test.go $WT/$pkgdir/zz_seed_demo_test.go
echo "--- demo without patch (expect ok)"; go test -vet=off -count=1 -run 'Seed' ./$pkgdir/ 2>&1 | tail -2
git apply $SD/patch.diff || { echo "patch does not apply in worktree"; exit 2; }
echo "--- demo with patch (expect FAIL)"; go test -vet=off -count=1 -run 'Seed' ./$pkgdir/ 2>&1 | grep -E "^(--- FAIL|FAIL|ok|panic)" | head -5
rm $WT/$pkgdir/zz_seed_demo_test.go
pkgs=$(git diff --name-only | xargs -n1 dirname | sort -u | sed 's#^#./#; s#$#/#' | tr '\n' ' ')
echo "--- existing tests with patch on $pkgs (expect ok)"; go build ./... && go test -vet=off -count=1 $pkgs 2>&1 | tail -3
echo "--- check $PROP on patched worktree (VERIF_REPO=$WT)"
if [ "$SKIPCHECK" != 1 ]; then
(cd /verif && VERIF_REPO=$WT VERIF_OUT=/tmp/seedout_$$ VERIF_EVIDENCE_DIR=/tmp/seedout_$$/ev ./vpcheck $PROP "$@" 2>&1 | grep -E "VIOLATION|KNOWN|INCONCLUSIVE|^symgo: C|assert|native replay" | head -12)
fi
rm -rf /tmp/seedout_$$
cd $WT && git checkout -q -- . && git clean -fdq -e _seed
