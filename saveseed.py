#!/usr/bin/env python3
"""saveseed.py <PROP> <name> <srcdir> <detected|missed> "<needs>" "<detected_by / why missed>"  — copy a confirmed seeded change into /verif/seeded/<PROP>-<name>/"""
import sys, os, shutil, json
prop, name, src, status, needs, how = sys.argv[1:7]
dst = f"/verif/seeded/{prop}-{name}"
os.makedirs(dst, exist_ok=True)
for f in ("patch.diff", "demo_test.go", "notes.md"):
    if os.path.exists(os.path.join(src, f)):
        shutil.copy(os.path.join(src, f), os.path.join(dst, f))
meta = {"property": prop, "name": name, "breaks": prop, "needs_to_manifest": needs, "status": status, "how": how,
        "confirmed": "seedtest.sh: demo passes on the unchanged tree, fails with patch.diff applied; `go build ./...` and the existing tests of the touched packages pass with the patch; then the property's check was run against the patched tree (VERIF_REPO=<scratch worktree>)",
        "author": "independent sub-agent given only the property text and a scratch worktree"}
json.dump(meta, open(os.path.join(dst, "meta.json"), "w"), indent=1)
print("saved", dst)
