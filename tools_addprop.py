#!/usr/bin/env python3
"""Helper: merge a property spec (JSON on stdin) into props.json (replace by id), keep order by id, regenerate MANIFEST."""
import json, sys, os, subprocess
here = os.path.dirname(os.path.abspath(__file__))
spec = json.load(sys.stdin)
props = json.load(open(os.path.join(here, 'props.json')))
props = [p for p in props if p['id'] != spec['id']] + [spec]
props.sort(key=lambda p: p['id'])
json.dump(props, open(os.path.join(here, 'props.json'), 'w'), indent=1)
subprocess.check_call([sys.executable, os.path.join(here, 'gen_manifest.py')])
