//go:build verif

package render3d

import (
	"math"

	"github.com/unixpickle/model3d/internal/vp"
	"github.com/unixpickle/model3d/model3d"
)

func vpPoint(name string) model3d.Coord3D {
	return model3d.XYZ(vp.Float64(name+".x"), vp.Float64(name+".y"), vp.Float64(name+".z"))
}

func vpEqC(a, b model3d.Coord3D) bool {
	return vp.All(a.X == b.X, a.Y == b.Y, a.Z == b.Z)
}

// VP_C20_Estimate: the colour returned for a pixel is the arithmetic mean of
// the samples taken for it, and the reported sample count is the number of
// samples taken, whatever the early-stopping settings and whatever the
// convergence test answers.
func VP_C20_Estimate() {
	ns := vp.Param("numSamples")
	minSamples := vp.Concrete(vp.Int("minSamples", 0, ns))
	calls := 0
	var sum Color
	r := &rayRenderer{
		RayColor: func(g *goInfo, obj Object, ray *model3d.Ray) Color {
			calls++
			c := vpPoint("sample")
			vp.Assume(vp.All(c.X >= 0, c.Y >= 0, c.Z >= 0))
			sum = sum.Add(c)
			return c
		},
		Camera:     &Camera{},
		NumSamples: ns,
		MinSamples: minSamples,
	}
	stopping := vp.Param("stopping") // 0: none or custom convergence function; 1: MaxStddev test
	if stopping == 0 {
		stopping = vp.Choice("stopping", 2)
	} else {
		stopping = 2
	}
	switch stopping {
	case 0:
		// no convergence check
	case 1:
		r.Convergence = func(mean, stddev Color) bool { return vp.Bool("converged") }
	case 2:
		r.MaxStddev = vp.Float64("maxStddev")
		vp.Assume(r.MaxStddev > 0)
		if vp.Bool("oversat") {
			r.OversaturatedStddevs = 3
		}
	}
	caster := func(x, y float64) model3d.Coord3D { return model3d.Z(1) }
	got, n := r.estimateColor(&goInfo{}, nil, 0, 0, caster)
	vp.Assert(n == calls, "reported sample count is the number of samples taken")
	vp.Assert(calls >= 1 && calls <= ns, "between 1 and NumSamples samples are taken")
	if r.HasConvergenceCheck() {
		vp.Assert(calls >= minSamples || calls == ns, "at least MinSamples samples are taken before stopping early")
	} else {
		vp.Assert(calls == ns, "without a convergence check all samples are taken")
	}
	k := float64(calls)
	vp.AssertNear(got.X*k, sum.X, 1e-9, "pixel is the mean of its samples (r)")
	vp.AssertNear(got.Y*k, sum.Y, 1e-9, "pixel is the mean of its samples (g)")
	vp.AssertNear(got.Z*k, sum.Z, 1e-9, "pixel is the mean of its samples (b)")
	vp.Reach("end")
}

// VP_C20_MapCoords: every pixel index is delivered exactly once with
// consistent coordinates, for every worker count.
func VP_C20_MapCoords() {
	w, h := vp.Param("w"), vp.Param("h")
	seen := make([]int, w*h)
	bad := false
	mapCoordinates(w, h, func(g *goInfo, x, y, idx int) {
		if idx < 0 || idx >= w*h || x < 0 || x >= w || y < 0 || y >= h || x+y*w != idx || g == nil || g.Gen == nil {
			bad = true
			return
		}
		seen[idx]++
	})
	vp.Assert(!bad, "callback arguments are consistent (idx == x + y*width, in range, per-goroutine generator present)")
	for _, c := range seen {
		vp.Assert(c == 1, "every pixel is delivered exactly once")
	}
	vp.Reach("end")
}

// VP_C20_Camera: projection and un-projection are inverse.
func VP_C20_Camera() {
	fovs := []float64{DefaultFieldOfView, 1.0, -0.7}
	cam := &Camera{
		Origin:      vpPoint("origin"),
		FieldOfView: fovs[vp.Param("fov")],
	}
	switch vp.Param("axes") {
	case 0:
		cam.ScreenX, cam.ScreenY = model3d.X(1), model3d.Y(1)
	case 1:
		cam.ScreenX, cam.ScreenY = model3d.Z(-1), model3d.X(1)
	case 2:
		cam.ScreenX, cam.ScreenY = model3d.Y(1), model3d.Z(1)
	}
	w, h := vp.Float64("w"), vp.Float64("h")
	vp.Assume(vp.And(w > 0, h > 0))
	x, y := vp.Float64("x"), vp.Float64("y")
	s := vp.Float64("s")
	vp.Assume(s > 0)
	dir := cam.Caster(w, h)(x, y)
	p := cam.Origin.Add(dir.Scale(s))
	ux, uy := cam.Uncaster(w, h)(p)
	vp.AssertNear(ux, x, 1e-9, "Uncaster(Origin + s*Caster(x,y)) gives back x")
	vp.AssertNear(uy, y, 1e-9, "Uncaster(Origin + s*Caster(x,y)) gives back y")
	// the centre pixel looks along ScreenX x ScreenY
	c := cam.Caster(w, h)(w/2, h/2)
	z := cam.ScreenX.Cross(cam.ScreenY)
	vp.Assert(vp.And(c.Cross(z).Dot(c.Cross(z)) == 0, (c.Dot(z) > 0) == (math.Tan(cam.FieldOfView/2) > 0)), "the centre ray looks along ScreenX x ScreenY (reversed for a negative field of view)")
	vp.Reach("end")
}

// vpStubObject: an arbitrary object: whether it is hit, where, and with what
// normal are uninterpreted functions of the ray.
type vpStubObject struct {
	name     string
	idx      int
	min, max model3d.Coord3D
	rays     []model3d.Ray
}

func vpNewStubObject(name string, idx int) *vpStubObject {
	o := &vpStubObject{name: name, idx: idx, min: vpPoint(name + ".min"), max: vpPoint(name + ".max")}
	vp.Assume(vp.All(o.min.X <= o.max.X, o.min.Y <= o.max.Y, o.min.Z <= o.max.Z))
	return o
}

func (o *vpStubObject) Min() model3d.Coord3D { return o.min }
func (o *vpStubObject) Max() model3d.Coord3D { return o.max }
func (o *vpStubObject) Cast(r *model3d.Ray) (model3d.RayCollision, Material, bool) {
	o.rays = append(o.rays, *r)
	args := []float64{r.Origin.X, r.Origin.Y, r.Origin.Z, r.Direction.X, r.Direction.Y, r.Direction.Z}
	hit := vp.MemoBool(o.name+".hit", args...)
	sc := vp.MemoFloat(o.name+".scale", args...)
	vp.Assume(sc >= 0)
	n := model3d.XYZ(vp.MemoFloat(o.name+".nx", args...), vp.MemoFloat(o.name+".ny", args...), vp.MemoFloat(o.name+".nz", args...))
	vp.AssumeEq(n.Dot(n), 1)
	return model3d.RayCollision{Scale: sc, Normal: n, Extra: o.idx}, nil, hit
}

// VP_C20_Joined: a composite object reports the nearest hit among its parts.
func VP_C20_Joined() {
	n := vp.Param("n")
	var j JoinedObject
	var parts []*vpStubObject
	for i := 0; i < n; i++ {
		o := vpNewStubObject([]string{"A", "B", "C", "D"}[i], i)
		parts = append(parts, o)
		j = append(j, o)
	}
	ray := &model3d.Ray{Origin: vpPoint("o"), Direction: vpPoint("d")}
	rc, _, found := j.Cast(ray)
	any := false
	for _, o := range parts {
		c, _, hit := o.Cast(ray)
		any = vp.Or(any, hit)
		vp.Assert(vp.Implies(vp.And(found, hit), rc.Scale <= c.Scale), "JoinedObject.Cast reports the nearest hit")
	}
	vp.Assert(found == any, "JoinedObject.Cast finds a hit iff some part is hit")
	if found {
		idx := rc.Extra.(int)
		c, _, hit := parts[idx].Cast(ray)
		vp.Assert(vp.And(hit, c.Scale == rc.Scale), "the reported collision is one of the parts' collisions")
	}
	jmin, jmax := j.Min(), j.Max()
	for _, o := range parts {
		vp.Assert(vp.All(jmin.X <= o.min.X, jmin.Y <= o.min.Y, jmin.Z <= o.min.Z, jmax.X >= o.max.X, jmax.Y >= o.max.Y, jmax.Z >= o.max.Z), "joined bounds enclose every part")
	}
	vp.Reach("end")
}

// vpStubBounds is an arbitrary bounds collider for a FilteredObject: whether
// and where a ray meets it are uninterpreted (for a box it is the entry
// distance from outside but the exit distance from inside); the harness
// constrains it to be hit whenever the filtered object is.
type vpStubBounds struct {
	name     string
	min, max model3d.Coord3D
}

func (b *vpStubBounds) Min() model3d.Coord3D { return b.min }
func (b *vpStubBounds) Max() model3d.Coord3D { return b.max }
func (b *vpStubBounds) RayCollisions(r *model3d.Ray, f func(model3d.RayCollision)) int {
	panic("not used")
}
func (b *vpStubBounds) SphereCollision(c model3d.Coord3D, r float64) bool { panic("not used") }
func (b *vpStubBounds) FirstRayCollision(r *model3d.Ray) (model3d.RayCollision, bool) {
	args := []float64{r.Origin.X, r.Origin.Y, r.Origin.Z, r.Direction.X, r.Direction.Y, r.Direction.Z}
	sc := vp.MemoFloat(b.name+".scale", args...)
	vp.Assume(sc >= 0)
	return model3d.RayCollision{Scale: sc}, vp.MemoBool(b.name+".hit", args...)
}

// VP_C20_FilteredJoined: the shape BVHToObject builds - a JoinedObject whose
// children are leaves and bounds-filtered branches - reports the nearest hit
// among all leaves for every ray. Leaves are arbitrary objects; each
// branch's bounds collider is arbitrary except that it is hit whenever a
// leaf below it is (the FilteredObject contract).
func VP_C20_FilteredJoined() {
	a, b, c := vpNewStubObject("A", 0), vpNewStubObject("B", 1), vpNewStubObject("C", 2)
	ray := &model3d.Ray{Origin: vpPoint("o"), Direction: vpPoint("d")}
	leaves := []*vpStubObject{a, b, c}
	var scales [3]float64
	var hits [3]bool
	for i, l := range leaves {
		rc, _, h := l.Cast(ray)
		scales[i], hits[i] = rc.Scale, h
	}
	filtered := func(name string, below []int, objs ...Object) Object {
		bd := &vpStubBounds{name: name}
		_, bh := bd.FirstRayCollision(ray)
		for _, i := range below {
			vp.Assume(vp.Implies(hits[i], bh))
		}
		return &FilteredObject{Object: JoinedObject(objs), Bounds: bd}
	}
	var obj Object
	switch vp.Param("shape") {
	case 0: // {A, [B, C]}
		obj = JoinedObject{a, filtered("F", []int{1, 2}, b, c)}
	case 1: // [[A, B], [C]]
		obj = filtered("R", []int{0, 1, 2}, filtered("F", []int{0, 1}, a, b), filtered("G", []int{2}, c))
	case 2: // {[A], [B], C}
		obj = JoinedObject{filtered("F", []int{0}, a), filtered("G", []int{1}, b), c}
	}
	rc, _, found := obj.Cast(ray)
	any := false
	for i := range leaves {
		any = vp.Or(any, hits[i])
		vp.Assert(vp.Implies(vp.And(found, hits[i]), rc.Scale <= scales[i]), "BVH-shaped object reports the nearest hit among all leaves")
	}
	vp.Assert(found == any, "BVH-shaped object finds a hit iff some leaf is hit")
	if found {
		idx := rc.Extra.(int)
		vp.Assert(vp.And(hits[idx], scales[idx] == rc.Scale), "the reported collision is one of the leaves' collisions")
	}
	vp.Reach("end")
}

// VP_C20_Transformed: a translated / rotated / scaled object is hit exactly
// where the transformed original is: the wrapped object is asked about the
// pre-image ray, the hit keeps its parameter, the normal is the unit image.
func VP_C20_Transformed() {
	inner := vpNewStubObject("A", 0)
	o, d := vpPoint("o"), vpPoint("d")
	var obj Object
	var fwd func(model3d.Coord3D) model3d.Coord3D
	var lin func(model3d.Coord3D) model3d.Coord3D
	switch vp.Param("kind") {
	case 0:
		off := vpPoint("off")
		obj = Translate(inner, off)
		fwd = func(c model3d.Coord3D) model3d.Coord3D { return c.Add(off) }
		lin = func(c model3d.Coord3D) model3d.Coord3D { return c }
	case 1:
		s := vp.Float64("scale")
		vp.Assume(s > 0)
		obj = Scale(inner, s)
		fwd = func(c model3d.Coord3D) model3d.Coord3D { return c.Scale(s) }
		lin = fwd
	case 2:
		m := model3d.NewMatrix3Rotation(model3d.Z(1), vp.Float64("theta"))
		obj = Rotate(inner, model3d.Z(1), vp.Float64("theta2"))
		_ = m
		obj = MatrixMultiply(inner, m)
		fwd = func(c model3d.Coord3D) model3d.Coord3D { return m.MulColumn(c) }
		lin = fwd
	case 3:
		// two nested matrix transforms that do not commute (a quarter turn
		// about x inside a symbolic anisotropic scaling followed by a quarter
		// turn about z): the composite is outer*inner
		a := &model3d.Matrix3{1, 0, 0, 0, 0, 1, 0, -1, 0}
		sx, sy := vp.Float64("sx"), vp.Float64("sy")
		vp.Assume(vp.And(sx > 0, sy > 0))
		b := &model3d.Matrix3{0, sx, 0, -sy, 0, 0, 0, 0, 1}
		obj = MatrixMultiply(MatrixMultiply(inner, a), b)
		fwd = func(c model3d.Coord3D) model3d.Coord3D { return b.MulColumn(a.MulColumn(c)) }
		lin = fwd
	case 4:
		// translation inside a rotation inside a translation
		off1, off2 := vpPoint("off1"), vpPoint("off2")
		m := model3d.NewMatrix3Rotation(model3d.Z(1), vp.Float64("theta"))
		obj = Translate(MatrixMultiply(Translate(inner, off1), m), off2)
		fwd = func(c model3d.Coord3D) model3d.Coord3D { return m.MulColumn(c.Add(off1)).Add(off2) }
		lin = func(c model3d.Coord3D) model3d.Coord3D { return m.MulColumn(c) }
	}
	outer := &model3d.Ray{Origin: fwd(o), Direction: lin(d)}
	rc, _, hit := obj.Cast(outer)
	vp.Assert(len(inner.rays) == 1, "one inner query")
	vp.Assert(vpEqC(inner.rays[0].Origin, o), "inner ray origin is the pre-image of the outer origin")
	vp.Assert(vpEqC(inner.rays[0].Direction, d), "inner ray direction is the pre-image of the outer direction")
	irc, _, ihit := inner.Cast(&inner.rays[0])
	vp.Assert(hit == ihit, "wrapper is hit iff the original is")
	if hit {
		vp.Assert(rc.Scale == irc.Scale, "hit keeps its ray parameter")
		img := lin(irc.Normal)
		l := vp.Float64("imgnorm")
		vp.Assume(l >= 0)
		vp.AssumeEq(l*l, img.Dot(img))
		vp.Assert(vpEqC(rc.Normal.Scale(l), img), "normal is the unit image of the original normal")
	}
	bmin, bmax := obj.Min(), obj.Max()
	p := vpPoint("p")
	vp.Assume(vp.All(p.X >= inner.min.X, p.Y >= inner.min.Y, p.Z >= inner.min.Z, p.X <= inner.max.X, p.Y <= inner.max.Y, p.Z <= inner.max.Z))
	q := fwd(p)
	vp.Assert(vp.All(q.X >= bmin.X, q.Y >= bmin.Y, q.Z >= bmin.Z, q.X <= bmax.X, q.Y <= bmax.Y, q.Z <= bmax.Z), "wrapper bounds enclose the image of the original bounds")
	vp.Reach("end")
}

// VP_C20_CameraAt: NewCameraAt(source, dest) looks from source towards dest:
// the centre ray is a positive multiple of dest-source and the screen axes
// are orthonormal. The viewing direction ranges over a menu (including the
// degenerate +z / -z cases), scaled by a symbolic positive distance; the
// source point is symbolic.
func VP_C20_CameraAt() {
	dirs := []model3d.Coord3D{model3d.Z(1), model3d.Z(-1), model3d.X(1), model3d.Y(-1), model3d.XYZ(0, 3, 4), model3d.XYZ(2, -1, 2)}
	dir := dirs[vp.Param("dir")]
	src := vpPoint("source")
	dist := vp.Float64("dist")
	vp.Assume(dist > 0.01)
	dst := src.Add(dir.Scale(dist))
	cam := NewCameraAt(src, dst, 0)
	vp.Assert(vpEqC(cam.Origin, src), "camera sits at the source point")
	vp.AssertNear(cam.ScreenX.Dot(cam.ScreenX), 1, 1e-9, "ScreenX is a unit vector")
	vp.AssertNear(cam.ScreenY.Dot(cam.ScreenY), 1, 1e-9, "ScreenY is a unit vector")
	vp.AssertNear(cam.ScreenX.Dot(cam.ScreenY), 0, 1e-9, "screen axes are orthogonal")
	c := cam.Caster(4, 4)(2, 2)
	cr := c.Cross(dir)
	vp.AssertNear(cr.Dot(cr), 0, 1e-9, "the centre ray is parallel to dest - source")
	vp.Assert(c.Dot(dir) > 0, "the centre ray points from the source towards the destination")
	vp.Reach("end")
}
