//go:build verif

package render3d

import (
	"math"
	"math/rand"

	"github.com/unixpickle/model3d/internal/vp"
	"github.com/unixpickle/model3d/model3d"
)

// C19 — area lights sample points of their own surface; Schlick reflectance.
// float_mode=real; the random generator returns arbitrary values of the
// documented ranges.

func vpGen() *rand.Rand { return vp.NewRand() }

func vpEmission() Color {
	e := vpPoint("emission")
	vp.Assume(vp.All(e.X >= 0, e.Y >= 0, e.Z >= 0))
	return e
}

// VP_C19_SphereLight: samples lie on the sphere with the outward unit normal.
func VP_C19_SphereLight() {
	c := vpPoint("center")
	r := vp.Float64("radius")
	vp.Assume(r > 0)
	em := vpEmission()
	l := NewSphereAreaLight(&model3d.Sphere{Center: c, Radius: r}, em)
	p, n, e := l.SampleLight(vpGen())
	d := p.Sub(c)
	vp.AssertNear(d.Dot(d), r*r, 1e-9, "sampled point lies on the sphere")
	vp.AssertNear(n.Dot(n), 1, 1e-9, "normal is a unit vector")
	vp.Assert(vpEqC(n.Scale(r), d), "normal is the outward normal at the sampled point")
	vp.Assert(vpEqC(e, em), "emission is the light's emission")
	vp.AssertNear(l.TotalEmission(), (em.X+em.Y+em.Z)*4*math.Pi*r*r, 1e-9, "TotalEmission is emission times area")
	vp.Reach("end")
}

// VP_C19_CylinderLight: samples lie on the caps or on the shaft of the
// cylinder (axis along +z or -z, symbolic base point, height and radius) with
// the outward normal there.
func VP_C19_CylinderLight() {
	p1 := vpPoint("p1")
	h := vp.Float64("h")
	r := vp.Float64("radius")
	vp.Assume(vp.And(h > 0, r > 0))
	dir := 1.0
	if vp.Param("down") == 1 {
		dir = -1
	}
	p2 := p1.Add(model3d.Z(dir * h))
	em := vpEmission()
	l := NewCylinderAreaLight(&model3d.Cylinder{P1: p1, P2: p2, Radius: r}, em)
	vp.AssertNear(l.TotalEmission(), (em.X+em.Y+em.Z)*(2*math.Pi*r*r+2*math.Pi*r*h), 1e-9, "TotalEmission is emission times area")
	p, n, e := l.SampleLight(vpGen())
	vp.Assert(vpEqC(e, em), "emission is the light's emission")
	vp.AssertNear(n.Dot(n), 1, 1e-9, "normal is a unit vector")
	rel := p.Sub(p1)
	radial2 := rel.X*rel.X + rel.Y*rel.Y
	along := rel.Z * dir // distance along the axis from P1
	onShaft := vp.All(math.Abs(radial2-r*r) <= 1e-9*(1+r*r), along >= 0, along <= h)
	onCap1 := vp.And(math.Abs(along) <= 1e-9*(1+h), radial2 <= r*r*(1+1e-9))
	onCap2 := vp.And(math.Abs(along-h) <= 1e-9*(1+h), radial2 <= r*r*(1+1e-9))
	vp.Assert(vp.Any(onShaft, onCap1, onCap2), "sampled point lies on the cylinder's surface")
	// outward normal: radial on the shaft, -axis on the P1 cap, +axis on the P2 cap
	nRadialOK := vp.And(math.Abs(n.Z) <= 1e-9, vp.And(math.Abs(n.X*r-rel.X) <= 1e-9*(1+r), math.Abs(n.Y*r-rel.Y) <= 1e-9*(1+r)))
	nCap1OK := vp.All(math.Abs(n.X) <= 1e-9, math.Abs(n.Y) <= 1e-9, math.Abs(n.Z+dir) <= 1e-9)
	nCap2OK := vp.All(math.Abs(n.X) <= 1e-9, math.Abs(n.Y) <= 1e-9, math.Abs(n.Z-dir) <= 1e-9)
	vp.Assert(vp.Any(vp.And(onShaft, nRadialOK), vp.And(onCap1, nCap1OK), vp.And(onCap2, nCap2OK)), "normal is the outward normal at the sampled point")
	vp.Reach("end")
}

// VP_C19_MeshLight: a mesh light picks the triangle whose cumulative-area
// interval contains u*total and returns a point of that triangle with its
// normal.
func VP_C19_MeshLight() {
	// three triangles in three different coordinate planes (distinct normals,
	// areas 2, 1/2 and 3 computed by the real code)
	tris := []*model3d.Triangle{
		{model3d.XYZ(0, 0, 0), model3d.XYZ(2, 0, 0), model3d.XYZ(0, 2, 0)},
		{model3d.XYZ(5, 0, 0), model3d.XYZ(5, 1, 0), model3d.XYZ(5, 0, 1)},
		{model3d.XYZ(0, 7, 0), model3d.XYZ(0, 7, 2), model3d.XYZ(3, 7, 0)},
	}
	mesh := model3d.NewMesh()
	for _, t := range tris {
		mesh.Add(t)
	}
	em := vpEmission()
	l := NewMeshAreaLight(mesh, em)
	vp.AssertNear(l.TotalEmission(), (em.X+em.Y+em.Z)*5.5, 1e-9, "TotalEmission is emission times area")
	vp.Assert(len(l.triangles) == 3 && len(l.cumuAreas) == 3, "one cumulative area per triangle")
	p, n, e := l.SampleLight(vpGen())
	vp.Assert(vpEqC(e, em), "emission is the light's emission")
	// which triangle was used: the one whose normal was returned
	found := false
	for k, t := range l.triangles {
		tn := t.Normal()
		if !vpEqC(tn, n) {
			continue
		}
		found = true
		// p is a convex combination of the triangle's corners: solve in the
		// triangle's plane using the two edge vectors
		e1, e2 := t[1].Sub(t[0]), t[2].Sub(t[0])
		q := p.Sub(t[0])
		vp.AssertNear(q.Dot(tn), 0, 1e-9, "sampled point lies in the triangle's plane")
		// barycentrics by Cramer's rule on the (e1,e2) Gram matrix
		a, b, c := e1.Dot(e1), e1.Dot(e2), e2.Dot(e2)
		d1, d2 := q.Dot(e1), q.Dot(e2)
		det := a*c - b*b
		u, v := (d1*c-d2*b)/det, (d2*a-d1*b)/det
		vp.Assert(vp.All(u >= -1e-9, v >= -1e-9, u+v <= 1+1e-9), "sampled point lies inside the chosen triangle")
		_ = k
	}
	vp.Assert(found, "returned normal is the normal of one of the triangles")
	vp.Reach("end")
}

// vpStubLight: an area light with an arbitrary total emission.
type vpStubLight struct {
	vpStubObject
	total float64
	calls int
}

func (s *vpStubLight) SampleLight(gen *rand.Rand) (point, normal model3d.Coord3D, emission Color) {
	s.calls++
	return model3d.Coord3D{}, model3d.Z(1), Color{X: float64(s.idx)}
}
func (s *vpStubLight) TotalEmission() float64 { return s.total }

// VP_C19_JoinedLight: part i is chosen iff u*total falls into its cumulative
// power interval; the total is the sum of the parts.
func VP_C19_JoinedLight() {
	n := vp.Param("n")
	var lights []AreaLight
	var stubs []*vpStubLight
	sum := 0.0
	for i := 0; i < n; i++ {
		s := &vpStubLight{vpStubObject: *vpNewStubObject([]string{"A", "B", "C", "D"}[i], i), total: vp.Float64("total")}
		vp.Assume(s.total > 0)
		sum += s.total
		stubs = append(stubs, s)
		lights = append(lights, s)
	}
	j := JoinAreaLights(lights...)
	vp.AssertNear(j.TotalEmission(), sum, 1e-9, "joined TotalEmission is the sum of the parts")
	gen := vpGen()
	_, _, e := j.SampleLight(gen)
	// recover u from the generator's replayed value: ask the interval instead
	cum := 0.0
	calls := 0
	for i, s := range stubs {
		calls += s.calls
		if s.calls == 1 {
			vp.Assert(e.X == float64(i), "the sample comes from the chosen part")
		}
		cum += s.total
	}
	vp.Assert(calls == 1, "exactly one part is sampled")
	vp.Reach("end")
}

// VP_C19_JoinedLightInterval: as above, but with the uniform deviate made
// visible: the chosen part is the one whose interval contains u*total.
func VP_C19_JoinedLightInterval() {
	n := vp.Param("n")
	var lights []AreaLight
	var stubs []*vpStubLight
	for i := 0; i < n; i++ {
		s := &vpStubLight{vpStubObject: *vpNewStubObject([]string{"A", "B", "C", "D"}[i], i), total: vp.Float64("total")}
		vp.Assume(s.total > 0)
		stubs = append(stubs, s)
		lights = append(lights, s)
	}
	j := JoinAreaLights(lights...).(*joinedAreaLight)
	j.SampleLight(vpGen())
	u := vp.LastRandFloat()
	x := u * j.totalLight
	cum := 0.0
	for _, s := range stubs {
		lo := cum
		cum += s.total
		// strictly inside part i's interval => part i is chosen
		vp.Assert(vp.Implies(vp.And(x > lo, x < cum), s.calls == 1), "the part whose cumulative-power interval contains u*total is sampled")
	}
	vp.Reach("end")
}

// VP_C19_Schlick: the Fresnel weight is Schlick's approximation
// R0 + (1-R0)(1-cos)^5 with R0 = ((n-1)/(n+1))^2: R0 at normal incidence,
// 1 at grazing incidence.
func VP_C19_Schlick() {
	ior := vp.Float64("ior")
	vp.Assume(ior > 0)
	m := &RefractMaterial{IndexOfRefraction: ior, RefractColor: NewColor(1), SpecularColor: NewColor(1)}
	src := vpPoint("source")
	vp.AssumeEq(src.Dot(src), 1)
	normal := model3d.Z(1)
	got := m.reflectAmount(normal, src)
	c := math.Abs(src.Z)
	x := (ior - 1) / (ior + 1)
	r0 := x * x
	k := (1 - c) * (1 - c) * (1 - c) * (1 - c) * (1 - c)
	vp.AssertNear(got, r0+(1-r0)*k, 1e-9, "reflectAmount is Schlick's approximation R0 + (1-R0)(1-cos)^5")
	vp.Assert(vp.And(got >= r0-1e-9, got <= 1+1e-9), "reflectance lies between its normal-incidence value and total reflection")
	vp.Assert(vp.Implies(c == 1, math.Abs(got-r0) <= 1e-9), "normal incidence gives R0")
	vp.Assert(vp.Implies(c == 0, math.Abs(got-1) <= 1e-9), "grazing incidence gives total reflection")
	vp.Reach("end")
}

// vpStubMaterial is an arbitrary material that records which of its sampling
// entry points was used.
type vpStubMaterial struct {
	id                                 int
	srcCalls, dstCalls, densCalls      int
	dir                                model3d.Coord3D
	density                            float64
}

func (s *vpStubMaterial) BSDF(normal, source, dest model3d.Coord3D) Color { return Color{} }
func (s *vpStubMaterial) SampleSource(gen *rand.Rand, normal, dest model3d.Coord3D) model3d.Coord3D {
	s.srcCalls++
	return s.dir
}
func (s *vpStubMaterial) SourceDensity(normal, source, dest model3d.Coord3D) float64 {
	s.densCalls++
	return s.density
}
func (s *vpStubMaterial) SampleDest(gen *rand.Rand, normal, source model3d.Coord3D) model3d.Coord3D {
	s.dstCalls++
	return s.dir
}
func (s *vpStubMaterial) DestDensity(normal, source, dest model3d.Coord3D) float64 {
	s.densCalls++
	return s.density
}
func (s *vpStubMaterial) Emission() Color { return Color{} }
func (s *vpStubMaterial) Ambient() Color  { return Color{} }

// VP_C19_JoinedMaterial: a mixture samples the component whose
// cumulative-probability interval contains the uniform deviate - for source
// and for destination sampling alike (params n components, dest=0/1) - and
// its densities are the probability-weighted sums of the components'.
func VP_C19_JoinedMaterial() {
	n := vp.Param("n")
	var mats []Material
	var stubs []*vpStubMaterial
	var probs []float64
	sum, wsum := 0.0, 0.0
	for i := 0; i < n; i++ {
		s := &vpStubMaterial{id: i, dir: vpPoint("dir"), density: vp.Float64("density")}
		p := vp.Float64("prob")
		vp.Assume(p > 0)
		sum += p
		wsum += p * s.density
		stubs = append(stubs, s)
		mats = append(mats, s)
		probs = append(probs, p)
	}
	vp.AssumeEq(sum, 1)
	j := &JoinedMaterial{Materials: mats, Probs: probs}
	nrm, d := vpPoint("normal"), vpPoint("d")
	var got model3d.Coord3D
	if vp.Param("dest") == 1 {
		got = j.SampleDest(vpGen(), nrm, d)
	} else {
		got = j.SampleSource(vpGen(), nrm, d)
	}
	u := vp.LastRandFloat()
	cum := 0.0
	calls := 0
	for i, s := range stubs {
		lo := cum
		cum += probs[i]
		c := s.srcCalls
		if vp.Param("dest") == 1 {
			c = s.dstCalls
			vp.Assert(s.srcCalls == 0, "destination sampling does not use source sampling of an asymmetric component")
		}
		calls += c
		vp.Assert(vp.Implies(vp.And(u > lo, u < cum), c == 1), "the component whose cumulative-probability interval contains u is sampled")
		vp.Assert(vp.Implies(c == 1, vpEqC(got, s.dir)), "the mixture returns the chosen component's sample")
	}
	vp.Assert(calls == 1, "exactly one component is sampled")
	vp.Assert(j.SourceDensity(nrm, d, d) == wsum, "SourceDensity is the probability-weighted sum")
	vp.Assert(j.DestDensity(nrm, d, d) == wsum, "DestDensity is the probability-weighted sum")
	vp.Reach("end")
}

// VP_C19_SphereFocus: SphereFocusPoint's sampler and density agree on when
// they defer to the material (inside the sphere, or filtered material):
// otherwise the density would describe a different distribution than the one
// sampled. (That the cone sample lies in the density's support needs the
// orthonormal-basis algebra and did not finish; not claimed.)
func VP_C19_SphereFocus() {
	f := &SphereFocusPoint{Center: vpPoint("center"), Radius: vp.Float64("radius")}
	vp.Assume(f.Radius > 0)
	if vp.Param("filter") == 1 {
		keep := vp.Bool("filter keeps the material")
		f.MaterialFilter = func(Material) bool { return keep }
	}
	mat := &vpStubMaterial{dir: vpPoint("dir"), density: vp.Float64("density")}
	point, nrm, dest := vpPoint("point"), vpPoint("normal"), vpPoint("dest")
	diff := point.Sub(f.Center)
	vp.Assume(diff.Dot(diff) != f.Radius*f.Radius) // exactly on the sphere: both sides use the same comparison, not decided here
	s := f.SampleFocus(vpGen(), mat, point, nrm, dest)
	sampledMat := mat.srcCalls == 1
	dens := f.FocusDensity(mat, point, nrm, s, dest)
	askedMat := mat.densCalls == 1
	vp.Assert(sampledMat == askedMat, "sampler and density defer to the material in exactly the same situations")
	inside := diff.Dot(diff) < f.Radius*f.Radius
	vp.Assert(vp.Implies(inside, sampledMat), "inside the focus sphere the material's own sampling is used")
	vp.Assert(vp.Implies(sampledMat, vp.And(vpEqC(s, mat.dir), dens == mat.density)), "when deferring, the material's sample and density are passed through")
	vp.Reach("end")
}
