//go:build verif

// Package vp is the nondeterminism / assertion API of the solver-based checks.
//
// Under the symbolic engine (symgo) calls to these functions are intercepted
// by name and never execute the bodies below. Compiled natively (go test
// -tags verif with the /verif overlay) the bodies replay a solver model read
// from $VP_REPLAY in call order, which is how a counterexample is confirmed
// against the real build.
package vp

import (
	"encoding/json"
	"fmt"
	"math"
	"math/rand"
	"os"
	"runtime"
	"strconv"
	"strings"
	"sync"
)

type input struct {
	Label string   `json:"label"`
	Kind  string   `json:"kind"`
	Value string   `json:"value"`
	Args  []string `json:"args,omitempty"`
}

type replayFile struct {
	Harness string         `json:"harness"`
	Params  map[string]int `json:"params"`
	Inputs  []input        `json:"inputs"`
	RealMode bool          `json:"real_mode"`
}

type state struct {
	rf     replayFile
	pos    int
	loaded bool
	failed []string
	diverged string
}

var st state

type abort struct{ why string }

// Load reads the replay vector (called by the generated test).
func Load(path string) error {
	data, err := os.ReadFile(path)
	if err != nil {
		return err
	}
	st = state{}
	if err := json.Unmarshal(data, &st.rf); err != nil {
		return err
	}
	st.loaded = true
	return nil
}

// RunList replays every file named in listPath (one per line) and prints one
// "VP-REPLAY-RESULT[<file>]: ..." line each (translator validation: the
// witness inputs of passing harnesses must pass natively too).
func RunList(listPath string, harnesses map[string]func()) {
	data, err := os.ReadFile(listPath)
	if err != nil {
		fmt.Printf("VP-REPLAY-LIST-ERROR: %v\n", err)
		return
	}
	for _, path := range strings.Split(strings.TrimSpace(string(data)), "\n") {
		if path == "" {
			continue
		}
		if err := Load(path); err != nil {
			fmt.Printf("VP-REPLAY-RESULT[%s]: load-error %v\n", path, err)
			continue
		}
		resultPrefix = "[" + path + "]"
		for _, in := range st.rf.Inputs {
			if in.Label == "numcpu" {
				if n, err := strconv.Atoi(in.Value); err == nil && n > 0 {
					runtime.GOMAXPROCS(n)
				}
			}
		}
		Run(harnesses)
		resultPrefix = ""
	}
}

var resultPrefix string

// Run executes one harness natively and reports the outcome on stdout.
func Run(harnesses map[string]func()) (ok bool) {
	f := harnesses[st.rf.Harness]
	if f == nil {
		fmt.Printf("VP-REPLAY-RESULT%s: missing-harness %s\n", resultPrefix, st.rf.Harness)
		return false
	}
	defer func() {
		r := recover()
		if a, isAbort := r.(abort); isAbort {
			fmt.Printf("VP-REPLAY-RESULT%s: %s\n", resultPrefix, a.why)
			ok = !strings.HasPrefix(a.why, "assert-failed")
			return
		}
		if r != nil {
			fmt.Printf("VP-REPLAY-RESULT%s: panic %v\n", resultPrefix, r)
			ok = false
			return
		}
		if st.diverged != "" {
			fmt.Printf("VP-REPLAY-RESULT%s: %s\n", resultPrefix, st.diverged)
			ok = true
			return
		}
		fmt.Printf("VP-REPLAY-RESULT%s: ok\n", resultPrefix)
		ok = true
	}()
	f()
	return true
}

var nextMu sync.Mutex

// next returns the next replayed input with the given label. Entries the
// native run does not ask for (the engine evaluates both arms of small
// conditionals, so its vector can contain answers to questions the native
// short-circuit never asks) are skipped. A label that does not occur any more
// marks the run as diverged; a zero value is handed out so that goroutines of
// the code under test do not crash the process.
func next(label, kindPrefix string) string {
	nextMu.Lock()
	defer nextMu.Unlock()
	if !st.loaded {
		panic(abort{"no-replay-loaded"})
	}
	for i := st.pos; i < len(st.rf.Inputs); i++ {
		if st.rf.Inputs[i].Label == label {
			st.pos = i + 1
			return st.rf.Inputs[i].Value
		}
	}
	if st.diverged == "" {
		st.diverged = fmt.Sprintf("diverged: harness asked for %q, not in the remaining replay vector", label)
	}
	switch kindPrefix {
	case "bool":
		return "false"
	case "f64", "f32":
		return "0x0000000000000000"
	}
	return "0"
}

// Symbolic reports whether the harness runs under the symbolic engine.
func Symbolic() bool { return false }

func Bool(label string) bool { return next(label, "bool") == "true" }

func parseI(s string) int64 {
	v, err := strconv.ParseInt(s, 10, 64)
	if err != nil {
		u, err2 := strconv.ParseUint(s, 10, 64)
		if err2 != nil {
			panic(abort{"bad integer in replay: " + s})
		}
		return int64(u)
	}
	return v
}

func Int(label string, lo, hi int) int { return int(parseI(next(label, "int"))) }
func AnyInt(label string) int          { return int(parseI(next(label, "int"))) }
func Int64(label string) int64         { return parseI(next(label, "int")) }
func Int32(label string) int32         { return int32(parseI(next(label, "int"))) }
func Int16(label string) int16         { return int16(parseI(next(label, "int"))) }
func Int8(label string) int8           { return int8(parseI(next(label, "int"))) }
func Uint64(label string) uint64       { return uint64(parseI(next(label, "int"))) }
func Uint32(label string) uint32       { return uint32(parseI(next(label, "int"))) }
func Uint16(label string) uint16       { return uint16(parseI(next(label, "int"))) }
func Uint8(label string) uint8         { return uint8(parseI(next(label, "int"))) }

func parseF(s string) float64 {
	if strings.HasPrefix(s, "0x") {
		u, err := strconv.ParseUint(s[2:], 16, 64)
		if err != nil {
			panic(abort{"bad float bits in replay: " + s})
		}
		return math.Float64frombits(u)
	}
	f, err := strconv.ParseFloat(s, 64)
	if err != nil {
		panic(abort{"bad float in replay: " + s})
	}
	return f
}

func Float64(label string) float64    { return parseF(next(label, "f64")) }
func AnyFloat64(label string) float64 { return parseF(next(label, "f64")) }
func Float32(label string) float32    { return float32(parseF(next(label, "f32"))) }
func AnyFloat32(label string) float32 { return float32(parseF(next(label, "f32"))) }

// Choice returns a value in [0,n); the engine explores every value.
func Choice(label string, n int) int { return int(parseI(next(label, "choice"))) }

// Concrete forces a symbolic integer to a concrete value (fork per value).
func Concrete(x int) int { return x }

// Assume restricts the inputs; natively a false assumption ends the replay.
func Assume(c bool) {
	if !c {
		panic(abort{"assume-false"})
	}
}

// AssumeEq assumes a == b: exact under the solver; natively (where model
// values of real-mode runs are rounded to float64) up to a relative 1e-6.
func AssumeEq(a, b float64) {
	if !(math.Abs(a-b) <= 1e-6*(1+math.Abs(a)+math.Abs(b))) {
		panic(abort{"assume-false"})
	}
}

// Assert is the property; natively a false assertion fails the replay.
func Assert(c bool, label string) {
	if !c {
		panic(abort{"assert-failed " + label})
	}
}

// AssertNear asserts |a-b| <= tol*(1+|a|+|b|).
func AssertNear(a, b, tol float64, label string) {
	if !(math.Abs(a-b) <= tol*(1+math.Abs(a)+math.Abs(b))) {
		panic(abort{fmt.Sprintf("assert-failed %s (a=%v b=%v)", label, a, b)})
	}
}

func Fail(label string) { panic(abort{"assert-failed " + label}) }

func Reach(label string)                  {}
func Observe(label string, v interface{}) { fmt.Printf("VP-OBSERVE: %s=%v\n", label, v) }

func And(a, b bool) bool     { return a && b }
func Or(a, b bool) bool      { return a || b }
func Not(a bool) bool        { return !a }
func Implies(a, b bool) bool { return !a || b }
func All(cs ...bool) bool {
	for _, c := range cs {
		if !c {
			return false
		}
	}
	return true
}
func Any(cs ...bool) bool {
	for _, c := range cs {
		if c {
			return true
		}
	}
	return false
}
func IteF(c bool, a, b float64) float64 {
	if c {
		return a
	}
	return b
}
func IteI(c bool, a, b int) int {
	if c {
		return a
	}
	return b
}
func IteU8(c bool, a, b uint8) uint8 {
	if c {
		return a
	}
	return b
}
func IteI8(c bool, a, b int8) int8 {
	if c {
		return a
	}
	return b
}
func IteB(c bool, a, b bool) bool {
	if c {
		return a
	}
	return b
}

// Param returns a concrete bound configured per harness instance.
func Param(name string) int {
	v, ok := st.rf.Params[name]
	if !ok {
		panic(abort{"missing param " + name})
	}
	return v
}

// MemoBool/MemoFloat/MemoInt: answers of an arbitrary (uninterpreted) function
// of the arguments: equal arguments get equal answers.
func MemoBool(label string, args ...float64) bool   { return memo(label, "bool", args) == "true" }
func MemoFloat(label string, args ...float64) float64 { return parseF(memo(label, "f64", args)) }
func MemoInt(label string, args ...float64) int     { return int(parseI(memo(label, "int", args))) }

// memo looks the answer up by argument values (the replay vector records the
// arguments each answer belongs to), so that the order of calls - which
// differs between the engine and a native run with goroutines or
// short-circuits - does not matter. Answers for arguments the model did not
// mention fall back to the next unused entry with the label.
func memo(label, kind string, args []float64) string {
	nextMu.Lock()
	if st.loaded {
		for _, in := range st.rf.Inputs {
			if in.Label != label || len(in.Args) != len(args) {
				continue
			}
			same := true
			for i, a := range in.Args {
				v := parseF(a)
				if st.rf.RealMode {
					if !(math.Abs(v-args[i]) <= 1e-9*(1+math.Abs(v))) {
						same = false
					}
				} else if math.Float64bits(v) != math.Float64bits(args[i]) && !(v == 0 && args[i] == 0) {
					same = false
				}
			}
			if same {
				nextMu.Unlock()
				return in.Value
			}
		}
	}
	nextMu.Unlock()
	return next(label, kind)
}

// NondetMapOrder makes `range` over maps inside the named function explore
// every iteration order (symbolic engine only).
func NondetMapOrder(fn string) {}

// ExploreSchedules: from here on the engine explores every interleaving of
// the goroutines at synchronisation granularity and checks plain memory
// accesses for data races (natively a no-op; races are confirmed with -race).
func ExploreSchedules() {}

// StepLimit declares that the code that follows must finish within n SSA
// instructions (termination is part of the property).
func StepLimit(n int) {}
func StepLimitOff()   {}

// Perm returns a permutation of 0..n-1; every permutation is explored.
func Perm(label string, n int) []int {
	rest := make([]int, n)
	for i := range rest {
		rest[i] = i
	}
	var res []int
	for len(rest) > 0 {
		k := Choice(label, len(rest))
		res = append(res, rest[k])
		rest = append(rest[:k], rest[k+1:]...)
	}
	return res
}

// RealMode reports whether floats are mathematical reals on this run.
func RealMode() bool { return st.rf.RealMode }

// NewRand returns a generator whose Float64 values are solver variables in
// [0,1) under the engine; natively they are replayed from the model
// (NormFloat64 etc. are not replayable natively and come from a fixed seed).
func NewRand() *rand.Rand { return rand.New(&replaySource{}) }

type replaySource struct{}

var lastRand float64

func (r *replaySource) Seed(int64) {}
func (r *replaySource) Int63() int64 {
	if st.pos < len(st.rf.Inputs) && st.rf.Inputs[st.pos].Label == "rand.Float64" {
		f := parseF(next("rand.Float64", "f64"))
		if f < 0 {
			f = 0
		}
		if f >= 1 {
			f = math.Nextafter(1, 0)
		}
		lastRand = f
		return int64(f * (1 << 63)) // (*rand.Rand).Float64 is float64(Int63()) / (1<<63)
	}
	// not a replayed Float64 (e.g. NormFloat64): deterministic filler
	fallback = fallback*6364136223846793005 + 1442695040888963407
	return int64(fallback >> 1)
}

var fallback uint64 = 0x9e3779b97f4a7c15

// LastRandFloat returns the last value handed out by a NewRand generator's Float64.
func LastRandFloat() float64 { return lastRand }

// NumTok / FloatTok return a decimal token for an arbitrary number: under the
// engine a placeholder that strconv turns back into the symbolic number,
// natively the digits of the replayed value.
func NumTok(label string) string { return strconv.FormatInt(parseI(next(label, "int")), 10) }
func FloatTok(label string) string {
	return strconv.FormatFloat(parseF(next(label, "f64")), 'g', -1, 64)
}

var allocBase uint64

// AllocStart / AssertAllocBelow bracket a decoder call: natively the bytes
// allocated in between must stay below limit; under the engine every make()
// with a symbolic length is checked instead.
func AllocStart() {
	var ms runtime.MemStats
	runtime.ReadMemStats(&ms)
	allocBase = ms.TotalAlloc
}
func AssertAllocBelow(limit int, label string) {
	var ms runtime.MemStats
	runtime.ReadMemStats(&ms)
	if ms.TotalAlloc-allocBase > uint64(limit) {
		panic(abort{fmt.Sprintf("assert-failed %s (allocated %d bytes)", label, ms.TotalAlloc-allocBase)})
	}
}
