//go:build verif

package model2d

import (
	"github.com/unixpickle/model3d/internal/vp"
)

// vpRasterStub is a solid that is constant (an arbitrary, symbolic value per
// tile) inside the tiles a conservative filter has declared uniform, and a
// fixed concrete pattern everywhere else (also outside the image).
type vpRasterStub struct {
	min, max Coord
	rejected []Rect
	uniform  []bool
}

func (s *vpRasterStub) Min() Coord { return s.min }
func (s *vpRasterStub) Max() Coord { return s.max }
func (s *vpRasterStub) Contains(c Coord) bool {
	for i := range s.rejected {
		// half-open tile [min, max): adjacent tiles do not overlap, so each
		// may have its own value (a filter that is conservative on the
		// closed tile is conservative on this one too)
		if r := s.rejected[i]; c.X >= r.MinVal.X && c.X < r.MaxVal.X && c.Y >= r.MinVal.Y && c.Y < r.MaxVal.Y {
			return s.uniform[i]
		}
	}
	d := c.Sub(s.min.Mid(s.max))
	return d.X*d.X+d.Y*d.Y <= s.min.Dist(s.max)*s.min.Dist(s.max)/36
}

// VP_C12_RasterFilter: a rasterised image is the same with an arbitrary
// conservative region filter (each tile is either rendered or, if the filter
// says it is uniform, filled with one colour) as without one. Image sizes
// that are not a multiple of the tile size are included (params w, h; tile
// size 16/subsamples).
func VP_C12_RasterFilter() {
	w, h, sub := vp.Param("w"), vp.Param("h"), vp.Param("subsamples")
	stub := &vpRasterStub{min: XY(-3, -3), max: XY(float64(w)+3, float64(h)+3)}
	ras := &Rasterizer{Scale: 1, Subsamples: sub, Bounds: &Rect{MinVal: XY(0, 0), MaxVal: XY(float64(w), float64(h))}}
	filtered := ras.RasterizeSolidFilter(stub, func(r *Rect) bool {
		if vp.Bool("filter says: may contain an outline") {
			return true
		}
		stub.rejected = append(stub.rejected, *r)
		stub.uniform = append(stub.uniform, vp.Bool("uniform tile is inside"))
		return false
	})
	plain := ras.RasterizeSolid(stub)
	vp.Assert(len(filtered.Pix) == w*h && len(plain.Pix) == w*h, "image size")
	same := true
	for i := range plain.Pix {
		same = vp.And(same, plain.Pix[i] == filtered.Pix[i])
	}
	vp.Assert(same, "filtered and unfiltered images are identical")
	vp.Reach("end")
}
