//go:build verif

package model2d

import (
	"github.com/unixpickle/model3d/internal/vp"
)

// C17 — curve kernels (real mode: polynomial identities, case analyses).

func vpCoord(name string) Coord {
	return XY(vp.Float64(name+".x"), vp.Float64(name+".y"))
}

// vpDeCasteljau: repeated linear interpolation (the definition).
func vpDeCasteljau(b []Coord, t float64) Coord {
	pts := append([]Coord{}, b...)
	for len(pts) > 1 {
		next := make([]Coord, len(pts)-1)
		for i := range next {
			next[i] = XY(pts[i].X*(1-t)+pts[i+1].X*t, pts[i].Y*(1-t)+pts[i+1].Y*t)
		}
		pts = next
	}
	return pts[0]
}

const vpTol = 1e-9

func vpNearC(a, b Coord, label string) {
	vp.AssertNear(a.X, b.X, vpTol, label+" (x)")
	vp.AssertNear(a.Y, b.Y, vpTol, label+" (y)")
}

// VP_C17_BezierEval: Eval equals repeated linear interpolation for n control
// points (covers the hand-expanded quadratic/cubic formulas, every row of
// binomialCoeffs and recursiveBezierFast's bookkeeping, and the generic
// recursion above the table).
func VP_C17_BezierEval() {
	n := vp.Param("n")
	b := make(BezierCurve, n)
	for i := range b {
		b[i] = vpCoord("p")
	}
	t := vp.Float64("t")
	vp.Assume(vp.And(t >= 0, t <= 1))
	got := b.Eval(t)
	want := vpDeCasteljau(b, t)
	vp.Assert(vp.And(got.X == want.X, got.Y == want.Y), "Bezier Eval equals repeated linear interpolation")
	vp.Reach("end")
}

// VP_C17_BezierSplit: the two halves of Split(t) evaluate to the parent.
func VP_C17_BezierSplit() {
	n := vp.Param("n")
	b := make(BezierCurve, n)
	for i := range b {
		b[i] = vpCoord("p")
	}
	t := vp.Float64("t")
	s := vp.Float64("s")
	vp.Assume(vp.All(t >= 0, t <= 1, s >= 0, s <= 1))
	c1, c2 := b.Split(t)
	vp.Assert(len(c1) == n && len(c2) == n, "Split keeps the degree")
	l := vpDeCasteljau(c1, s)
	wl := vpDeCasteljau(b, t*s)
	vp.Assert(vp.And(l.X == wl.X, l.Y == wl.Y), "first half of Split(t) at s is the curve at t*s")
	r := vpDeCasteljau(c2, s)
	wr := vpDeCasteljau(b, t+(1-t)*s)
	vp.Assert(vp.And(r.X == wr.X, r.Y == wr.Y), "second half of Split(t) at s is the curve at t+(1-t)*s")
	vp.Reach("end")
}

// VP_C17_BezierPoly: Polynomials() evaluates to the curve; Transpose swaps.
func VP_C17_BezierPoly() {
	n := vp.Param("n")
	b := make(BezierCurve, n)
	for i := range b {
		b[i] = vpCoord("p")
	}
	t := vp.Float64("t")
	ps := b.Polynomials()
	want := vpDeCasteljau(b, t)
	vp.Assert(vp.And(ps[0].Eval(t) == want.X, ps[1].Eval(t) == want.Y), "Polynomials() evaluate to the curve")
	tr := b.Transpose()
	for i := range b {
		vp.Assert(vp.And(tr[i].X == b[i].Y, tr[i].Y == b[i].X), "Transpose swaps x and y")
	}
	tc := CurveTranspose(b).Eval(t)
	vp.Assert(vp.And(tc.X == want.Y, tc.Y == want.X), "CurveTranspose swaps x and y")
	vp.Reach("end")
}

// VP_C17_SegmentCurve: a polyline evaluated at t is the point a fraction t of
// the way along its length. Segment lengths are symbolic (axis-aligned
// segments, so Length() is exact: alternate x and y steps).
func VP_C17_SegmentCurve() {
	n := vp.Param("n")
	var segs []*Segment
	cur := XY(0, 0)
	lens := make([]float64, n)
	for i := 0; i < n; i++ {
		l := vp.Float64("len")
		vp.Assume(l > 0)
		lens[i] = l
		next := cur
		if i%2 == 0 {
			next.X += l
		} else {
			next.Y += l
		}
		segs = append(segs, &Segment{cur, next})
		cur = next
	}
	sc := NewSegmentCurve(segs)
	t := vp.Float64("t")
	vp.Assume(vp.And(t >= 0, t <= 1))
	got := sc.Eval(t)
	// reference: walk the arc length
	total := 0.0
	for _, l := range lens {
		total += l
	}
	rem := t * total
	want := segs[n-1][1]
	done := false
	acc := XY(0, 0)
	for i := 0; i < n; i++ {
		// if rem <= lens[i] (and not done) the point is on segment i
		here := vp.And(vp.Not(done), rem <= lens[i])
		p := acc
		if i%2 == 0 {
			p.X += rem
		} else {
			p.Y += rem
		}
		want = XY(vp.IteF(here, p.X, want.X), vp.IteF(here, p.Y, want.Y))
		done = vp.Or(done, here)
		if i%2 == 0 {
			acc.X += lens[i]
		} else {
			acc.Y += lens[i]
		}
		rem -= lens[i]
	}
	vpNearC(got, want, "SegmentCurve.Eval(t) is the point at arc length t*L")
	vp.Reach("end")
}

type vpStubCurve struct{ name string }

func (s vpStubCurve) Eval(t float64) Coord {
	return XY(vp.MemoFloat(s.name+".x", t), vp.MemoFloat(s.name+".y", t))
}

// VP_C17_JoinedCurve: curve k is used on [k/n,(k+1)/n] with sub-parameter
// t*n-k; the last curve also serves t=1.
func VP_C17_JoinedCurve() {
	n := vp.Param("n")
	var j JoinedCurve
	for i := 0; i < n; i++ {
		j = append(j, vpStubCurve{[]string{"c0", "c1", "c2", "c3"}[i]})
	}
	t := vp.Float64("t")
	vp.Assume(vp.And(t >= 0, t <= 1))
	got := j.Eval(t)
	for k := 0; k < n; k++ {
		tn := t * float64(n)
		in := vp.And(tn >= float64(k), tn < float64(k+1))
		if k == n-1 {
			in = vp.And(tn >= float64(k), tn <= float64(k+1))
		}
		want := j[k].Eval(t*float64(n) - float64(k))
		vp.Assert(vp.Implies(in, vp.And(got.X == want.X, got.Y == want.Y)), "JoinedCurve.Eval uses curve k at sub-parameter t*n-k")
	}
	vp.Reach("end")
}

// VP_C17_Matrix2: inverse, determinant, MulColumnInv, products, rotation.
func VP_C17_Matrix2() {
	m := &Matrix2{vp.Float64("m0"), vp.Float64("m1"), vp.Float64("m2"), vp.Float64("m3")}
	p := vpCoord("p")
	det := m.Det()
	vp.Assert(det == m[0]*m[3]-m[1]*m[2], "Matrix2.Det")
	vp.Assume(det != 0)
	inv := m.Inverse()
	q := inv.MulColumn(m.MulColumn(p))
	vp.Assert(vp.And(q.X == p.X, q.Y == p.Y), "Matrix2: Inverse * M * p == p")
	q2 := m.MulColumn(inv.MulColumn(p))
	vp.Assert(vp.And(q2.X == p.X, q2.Y == p.Y), "Matrix2: M * Inverse * p == p")
	q3 := m.MulColumnInv(m.MulColumn(p), det)
	vp.Assert(vp.And(q3.X == p.X, q3.Y == p.Y), "Matrix2.MulColumnInv inverts MulColumn")
	m2 := &Matrix2{vp.Float64("n0"), vp.Float64("n1"), vp.Float64("n2"), vp.Float64("n3")}
	a := m.Mul(m2).MulColumn(p)
	b := m.MulColumn(m2.MulColumn(p))
	vp.Assert(vp.And(a.X == b.X, a.Y == b.Y), "Matrix2.Mul is composition")
	tr := m.Transpose()
	vp.Assert(vp.All(tr[0] == m[0], tr[1] == m[2], tr[2] == m[1], tr[3] == m[3]), "Matrix2.Transpose")
	cols := NewMatrix2Columns(p, vpCoord("q"))
	e1 := cols.MulColumn(XY(1, 0))
	vp.Assert(vp.And(e1.X == p.X, e1.Y == p.Y), "NewMatrix2Columns: first column is the image of e1")
	rot := NewMatrix2Rotation(vp.Float64("theta"))
	rtr := rot.Transpose().Mul(rot)
	vp.Assert(vp.All(rtr[0] == 1, rtr[1] == 0, rtr[2] == 0, rtr[3] == 1), "rotation matrix is orthogonal")
	vp.Assert(rot.Det() == 1, "rotation matrix has determinant 1")
	vp.Reach("end")
}
