//go:build verif

package model2d

import (
	"github.com/unixpickle/model3d/internal/vp"
)

// C10 (thin slice, 2D) — simplification and refinement of closed oriented
// polygons keep them closed, oriented and manifold, terminate, and preserve
// what they promise. The polygon is a rectangle with k extra colinear
// vertices on its bottom side (shape param 0) or an L-shaped hexagon with the
// extra vertices on its long side (shape param 1); every iteration order of
// the maps the algorithms range over is explored.

func vpPolygon(shape, k int) (*Mesh, []Coord) {
	var pts []Coord
	switch shape {
	case 0:
		pts = append(pts, XY(0, 0))
		for i := 1; i <= k; i++ {
			pts = append(pts, XY(float64(i)*0.5, 0))
		}
		pts = append(pts, XY(4, 0), XY(4, 2), XY(0, 2))
	case 1:
		pts = append(pts, XY(0, 0))
		for i := 1; i <= k; i++ {
			pts = append(pts, XY(float64(i), 0))
		}
		pts = append(pts, XY(6, 0), XY(6, 1), XY(2, 1), XY(2, 3), XY(0, 3))
	case 2:
		// a gently bulging bottom side: k interior vertices 0.1 below the
		// corners' line; each turns by less than the epsilon used below, but
		// once a neighbour is removed the remaining ones turn by more
		pts = append(pts, XY(0, 0))
		for i := 1; i <= k; i++ {
			pts = append(pts, XY(float64(i), -0.1))
		}
		pts = append(pts, XY(float64(k+1), 0), XY(float64(k+1), 2), XY(0, 2))
	}
	m := NewMesh()
	for i, p := range pts {
		m.Add(&Segment{p, pts[(i+1)%len(pts)]})
	}
	return m, pts
}

func vpSignedArea(m *Mesh) float64 {
	a := 0.0
	m.Iterate(func(s *Segment) {
		a += s[0].X*s[1].Y - s[1].X*s[0].Y
	})
	return a / 2
}

func vpClosedOriented(m *Mesh, what string) {
	vp.Assert(m.Manifold(), what+": every vertex has exactly two segments")
	vp.Assert(len(m.InconsistentVertices()) == 0, what+": every vertex has one incoming and one outgoing segment")
}

func vpVerticesSubset(m *Mesh, pts []Coord, what string) {
	for _, v := range m.VertexSlice() {
		found := false
		for _, p := range pts {
			if p == v {
				found = true
			}
		}
		vp.Assert(found, what+": no new vertices are introduced")
	}
}

// VP_C10_Colinear2D: EliminateColinear terminates, removes exactly the
// colinear vertices, and leaves the same closed oriented polygon.
func VP_C10_Colinear2D() {
	shape, k := vp.Param("shape"), vp.Param("k")
	m, pts := vpPolygon(shape, k)
	area := vpSignedArea(m)
	vp.NondetMapOrder("EliminateColinear")
	vp.StepLimit(400000)
	res := m.EliminateColinear(1e-8)
	vp.StepLimitOff()
	vpClosedOriented(res, "EliminateColinear")
	vpVerticesSubset(res, pts, "EliminateColinear")
	vp.Assert(res.NumSegments() == len(pts)-k, "EliminateColinear removes exactly the colinear vertices")
	vp.Assert(vpSignedArea(res) == area, "EliminateColinear preserves the enclosed (signed) area")
	vp.Reach("end")
}

// VP_C10_NearColinear2D: EliminateColinear with a coarse epsilon on a gently
// curved run (shape 2): a vertex is only removed while its current
// neighbours make it nearly colinear, so the run is never consumed entirely,
// the polygon stays closed and oriented and the area changes by at most the
// sliver of one removed vertex - for every map iteration order.
func VP_C10_NearColinear2D() {
	k := vp.Param("k")
	m, pts := vpPolygon(2, k)
	area := vpSignedArea(m)
	vp.NondetMapOrder("EliminateColinear")
	vp.StepLimit(400000)
	// turn at a bulge vertex: 1-cos(atan 0.1) = 0.00496 < 0.008; after a
	// neighbour is gone: 1-cos(atan 0.05 + atan 0.1) = 0.0112 > 0.008
	res := m.EliminateColinear(0.008)
	vp.StepLimitOff()
	vpClosedOriented(res, "EliminateColinear")
	vpVerticesSubset(res, pts, "EliminateColinear")
	kept := 0
	for _, v := range res.VertexSlice() {
		if v.Y == -0.1 {
			kept++
		}
	}
	vp.Assert(kept >= 1, "the last vertex of the run turns by more than epsilon once its neighbours are gone and is kept")
	vp.Assert(kept < k, "an eligible vertex is removed")
	d := vpSignedArea(res) - area
	vp.Assert(d <= 0.051*float64(k) && d >= -0.051*float64(k), "area changes by at most one 0.05 sliver per removed vertex")
	vp.Reach("end")
}

// VP_C10_Decimate2D: Decimate keeps at most n vertices (never fewer than a
// triangle), introduces no new vertices and keeps the polygon closed and
// oriented, for every map iteration order.
func VP_C10_Decimate2D() {
	shape, k, n := vp.Param("shape"), vp.Param("k"), vp.Param("n")
	m, pts := vpPolygon(shape, k)
	vp.NondetMapOrder("Decimate")
	vp.StepLimit(600000)
	res := m.Decimate(n)
	vp.StepLimitOff()
	vpClosedOriented(res, "Decimate")
	vpVerticesSubset(res, pts, "Decimate")
	want := n
	if want < 3 {
		want = 3
	}
	if want > len(pts) {
		want = len(pts)
	}
	vp.Assert(res.NumSegments() == want, "Decimate keeps exactly min(n, #vertices) vertices (at least a triangle)")
	vp.Assert((vpSignedArea(res) > 0) == (vpSignedArea(m) > 0), "Decimate keeps the orientation")
	vp.Reach("end")
}

// VP_C10_Subdivide2D: Chaikin subdivision doubles the segment count per
// iteration, places vertices by the 3/4-1/4 corner-cutting rule and keeps
// the polygon closed and oriented.
func VP_C10_Subdivide2D() {
	shape, k := vp.Param("shape"), vp.Param("k")
	m, pts := vpPolygon(shape, k)
	res := m.Subdivide(1)
	vpClosedOriented(res, "Subdivide")
	vp.Assert(res.NumSegments() == 2*len(pts), "one Chaikin iteration doubles the number of segments")
	for i, p := range pts {
		q := pts[(i+1)%len(pts)]
		a := p.Scale(0.75).Add(q.Scale(0.25))
		b := q.Scale(0.75).Add(p.Scale(0.25))
		vp.Assert(len(res.Find(a, b)) == 1, "every edge keeps its middle half (3/4-1/4 rule)")
	}
	vp.Assert((vpSignedArea(res) > 0) == (vpSignedArea(m) > 0), "Subdivide keeps the orientation")
	res2 := m.Subdivide(2)
	vpClosedOriented(res2, "Subdivide(2)")
	vp.Assert(res2.NumSegments() == 4*len(pts), "two iterations quadruple the number of segments")
	vp.Reach("end")
}

// VP_C06_Triangle2D: 2D Triangle SDF for symbolic corners in either
// orientation: the sign agrees with Contains, the nearest point is at the
// reported distance, and the reported normal is a unit vector pointing away
// from the triangle at the nearest point (for an outside query it has a
// non-negative component along query - nearest, for an inside query along
// nearest - query).
func VP_C06_Triangle2D() {
	a, b, c := XY(0, 0), XY(vp.Float64("bx"), 0), vpCoord("c")
	// bounded, non-degenerate triangles (NewTriangle switches to an SVD-based
	// pseudo-inverse when |det| <= 1e-12 * |v1||v2|)
	vp.Assume(vp.All(b.X > 0.1, b.X <= 100, c.X >= -100, c.X <= 100, c.Y >= -100, c.Y <= 100))
	if vp.Param("cw") == 1 {
		vp.Assume(c.Y < -0.1)
	} else {
		vp.Assume(c.Y > 0.1)
	}
	tri := NewTriangle(a, b, c)
	q := vpCoord("q")
	var n, p Coord
	sdf := tri.genericSDF(q, &n, &p, nil)
	d := q.Sub(p)
	vp.AssertNear(d.Dot(d), sdf*sdf, 1e-9, "nearest point is at the reported distance")
	vp.AssertNear(n.Dot(n), 1, 1e-9, "normal is a unit vector")
	vp.Assert(vp.Implies(sdf < 0, n.Dot(d) >= 0), "outside: the normal points from the nearest point towards the query")
	vp.Assert(vp.Implies(sdf > 0, n.Dot(d) <= 0), "inside: the normal points from the query towards the nearest point")
	vp.Assert((sdf >= 0) == tri.Contains(q), "SDF sign agrees with Contains")
	vp.Reach("end")
}
