//go:build verif

package model2d

import (
	"github.com/unixpickle/model3d/internal/vp"
)

// 2D twins (model2d is generated from the same templates as model3d; the
// harnesses are the 3D ones with one coordinate less).

type vpBoxSolid struct {
	name     string
	min, max Coord
}

func vpNewBoxSolid(name string) *vpBoxSolid {
	s := &vpBoxSolid{name: name}
	s.min = XY(vp.Float64(name+".minx"), vp.Float64(name+".miny"))
	s.max = XY(vp.Float64(name+".maxx"), vp.Float64(name+".maxy"))
	vp.Assume(vp.And(s.min.X <= s.max.X, s.min.Y <= s.max.Y))
	return s
}

func vpInBox(c, min, max Coord) bool {
	return vp.All(c.X >= min.X, c.Y >= min.Y, c.X <= max.X, c.Y <= max.Y)
}

func (s *vpBoxSolid) Min() Coord { return s.min }
func (s *vpBoxSolid) Max() Coord { return s.max }
func (s *vpBoxSolid) Contains(c Coord) bool {
	return vp.And(vpInBox(c, s.min, s.max), vp.MemoBool(s.name, c.X, c.Y))
}

type vpBoxSDF struct{ vpBoxSolid }

func (s *vpBoxSDF) SDF(c Coord) float64 { return vp.MemoFloat(s.name+".sdf", c.X, c.Y) }

type vpBoxNormalSDF struct{ vpBoxSDF }

func (s *vpBoxNormalSDF) NormalSDF(c Coord) (Coord, float64) {
	n := XY(vp.MemoFloat(s.name+".nx", c.X, c.Y), vp.MemoFloat(s.name+".ny", c.X, c.Y))
	vp.AssumeEq(n.Dot(n), 1)
	return n, s.SDF(c)
}

func vpEqC2(a, b Coord) bool { return vp.And(a.X == b.X, a.Y == b.Y) }

// VP_C04_Boolean2: union/intersection/difference, every order; wrappers.
func VP_C04_Boolean2() {
	n := vp.Param("n")
	names := []string{"A", "B", "C", "D"}
	var ops []Solid
	c := vpCoord("c")
	var ans []bool
	or, and := false, true
	for i := 0; i < n; i++ {
		s := vpNewBoxSolid(names[i])
		ops = append(ops, s)
		a := s.Contains(c)
		ans = append(ans, a)
		or, and = vp.Or(or, a), vp.And(and, a)
	}
	perm := vp.Perm("perm", n)
	pops := make([]Solid, n)
	for i, j := range perm {
		pops[i] = ops[j]
	}
	j := JoinedSolid(pops)
	vp.Assert(j.Contains(c) == or, "JoinedSolid is the union in every order")
	vp.Assert(vp.Implies(or, vpInBox(c, j.Min(), j.Max())), "JoinedSolid: contained points are inside the bounds")
	vp.Assert(j.Optimize().Contains(c) == or, "JoinedSolid.Optimize() answers like the plain union")
	is := IntersectedSolid(pops)
	vp.Assert(is.Contains(c) == and, "IntersectedSolid is the intersection in every order")
	imin, imax := is.Min(), is.Max()
	vp.Assert(vp.And(imin.X <= imax.X, imin.Y <= imax.Y), "IntersectedSolid: max >= min")
	vp.Assert(vp.Implies(and, vpInBox(c, imin, imax)), "IntersectedSolid: contained points are inside the bounds")
	if n >= 2 {
		sub := &SubtractedSolid{Positive: pops[0], Negative: JoinedSolid(pops[1:])}
		rest := false
		for i := 1; i < n; i++ {
			rest = vp.Or(rest, ans[perm[i]])
		}
		vp.Assert(sub.Contains(c) == vp.And(ans[perm[0]], vp.Not(rest)), "SubtractedSolid is the difference")
	}
	mux := NewSolidMux(ops)
	vp.Assert(mux.Contains(c) == or, "SolidMux.Contains answers like the plain union")
	all := mux.AllContains(c)
	for i := range all {
		vp.Assert(all[i] == ans[i], "AllContains[i] is operand i's answer")
	}
	inner := ops[0].(*vpBoxSolid)
	vp.Assert(CacheSolidBounds(inner).Contains(c) == ans[0], "CacheSolidBounds neither cuts nor adds")
	fmin, fmax := vpCoord("fmin"), vpCoord("fmax")
	vp.Assume(vp.And(fmin.X <= fmax.X, fmin.Y <= fmax.Y))
	vp.Assert(ForceSolidBounds(inner, fmin, fmax).Contains(c) == vp.And(ans[0], vpInBox(c, fmin, fmax)), "ForceSolidBounds is the intersection with the box")
	vp.Reach("end")
}

// VP_C04_SmoothJoin2: order independence etc. for the 2D smooth joins.
func VP_C04_SmoothJoin2() {
	n := vp.Param("n")
	names := []string{"A", "B", "C", "D"}
	var sdfs []SDF
	var nsdfs []NormalSDF
	for i := 0; i < n; i++ {
		s := &vpBoxNormalSDF{vpBoxSDF{*vpNewBoxSolid(names[i])}}
		sdfs = append(sdfs, s)
		nsdfs = append(nsdfs, s)
	}
	r := vp.Float64("radius")
	vp.Assume(r >= 0)
	c := vpCoord("c")
	d := make([]float64, n)
	union := false
	near := 0
	for i, s := range sdfs {
		d[i] = s.SDF(c)
		union = vp.Or(union, d[i] > 0)
		near += vp.IteI(d[i] > -r, 1, 0)
		for j := 0; j < i; j++ {
			vp.Assume(d[i] != d[j])
		}
	}
	base := SmoothJoin(r, sdfs...)
	vp.Assume(vpInBox(c, base.Min(), base.Max()))
	got := base.Contains(c)
	perm := vp.Perm("perm", n)
	ps := make([]SDF, n)
	pn := make([]NormalSDF, n)
	for i, j := range perm {
		ps[i], pn[i] = sdfs[j], nsdfs[j]
	}
	vp.Assert(SmoothJoin(r, ps...).Contains(c) == got, "SmoothJoin is independent of operand order")
	vp.Assert(vp.Implies(union, got), "SmoothJoin contains the plain union")
	vp.Assert(vp.Implies(vp.And(got, vp.Not(union)), near >= 2), "SmoothJoin only adds points within the radius of at least two operands")
	vp.Assert(vp.Implies(r == 0, got == union), "radius 0 is the plain union")
	v2 := SmoothJoinV2(r, nsdfs...).Contains(c)
	vp.Assert(SmoothJoinV2(r, pn...).Contains(c) == v2, "SmoothJoinV2 is independent of operand order")
	vp.Assert(vp.Implies(union, v2), "SmoothJoinV2 contains the plain union")
	vp.Reach("end")
}

// VP_C05_Laws2: 2D transform laws (kinds: 0 Translate, 1 Scale>0, 2 VecScale,
// 3 Matrix2Transform, 4 Rotation, 5 Joined{Translate,Scale}, 6 Joined{Rotation,Translate}).
func vpTransform2(kind int) (Transform, bool) {
	switch kind {
	case 0:
		return &Translate{Offset: vpCoord("off")}, true
	case 1:
		s := vp.Float64("scale")
		vp.Assume(s > 0)
		return &Scale{Scale: s}, true
	case 2:
		v := vpCoord("vscale")
		vp.Assume(vp.And(v.X != 0, v.Y != 0))
		return &VecScale{Scale: v}, false
	case 3:
		m := &Matrix2{vp.Float64("m"), vp.Float64("m"), vp.Float64("m"), vp.Float64("m")}
		vp.Assume(m.Det() != 0)
		return &Matrix2Transform{Matrix: m}, false
	case 4:
		return Rotation(vp.Float64("theta")), true
	case 5:
		s := vp.Float64("scale")
		vp.Assume(s > 0)
		return JoinedTransform{&Translate{Offset: vpCoord("off")}, &Scale{Scale: s}}, true
	case 6:
		return JoinedTransform{Rotation(vp.Float64("theta")), &Translate{Offset: vpCoord("off")}}, true
	}
	panic("bad kind")
}

func VP_C05_Laws2() {
	t, isDist := vpTransform2(vp.Param("kind"))
	inv := t.Inverse()
	p := vpCoord("p")
	vp.Assert(vpEqC2(inv.Apply(t.Apply(p)), p), "Inverse().Apply(Apply(p)) == p")
	vp.Assert(vpEqC2(t.Apply(inv.Apply(p)), p), "Apply(Inverse().Apply(p)) == p")
	bmin, bmax := vpCoord("bmin"), vpCoord("bmax")
	vp.Assume(vp.And(bmin.X <= bmax.X, bmin.Y <= bmax.Y))
	vp.Assume(vpInBox(p, bmin, bmax))
	nmin, nmax := t.ApplyBounds(bmin, bmax)
	vp.Assert(vp.And(nmin.X <= nmax.X, nmin.Y <= nmax.Y), "ApplyBounds returns min <= max")
	q := t.Apply(p)
	vp.Assert(vp.And(q.X >= nmin.X, q.X <= nmax.X), "ApplyBounds encloses the image of every point of the box (x)")
	vp.Assert(vp.And(q.Y >= nmin.Y, q.Y <= nmax.Y), "ApplyBounds encloses the image of every point of the box (y)")
	if isDist {
		dt := t.(DistTransform)
		p2 := vpCoord("p2")
		d := vp.Float64("d")
		diff := p.Sub(p2)
		vp.Assume(d >= 0)
		vp.AssumeEq(d*d, diff.Dot(diff))
		nd := dt.ApplyDistance(d)
		idiff := t.Apply(p).Sub(t.Apply(p2))
		vp.Assert(vp.And(nd >= 0, nd*nd == idiff.Dot(idiff)), "ApplyDistance(|p-q|) == |Apply(p)-Apply(q)|")
	}
	// conjugacy of TransformSolid / TransformSDF over an arbitrary wrapped object
	x := &vpBoxSDF{*vpNewBoxSolid("A")}
	ts := TransformSolid(t, x)
	in := x.Contains(p)
	vp.Assert(ts.Contains(q) == in, "TransformSolid(T,X) contains T(p) iff X contains p")
	if isDist {
		dt := t.(DistTransform)
		vp.Assert(TransformSDF(dt, x).SDF(q) == dt.ApplyDistance(x.SDF(p)), "TransformSDF(T,X).SDF(T p) == ApplyDistance(X.SDF(p))")
	}
	vp.Reach("end")
}
