//go:build verif

package model2d

import (
	"github.com/unixpickle/model3d/internal/vp"
)

// vpStubSolid2 is an arbitrary 2D solid: every Contains answer is a solver
// variable (an uninterpreted predicate of the query point).
type vpStubSolid2 struct {
	min, max Coord
}

func (s *vpStubSolid2) Min() Coord { return s.min }
func (s *vpStubSolid2) Max() Coord { return s.max }
func (s *vpStubSolid2) Contains(c Coord) bool {
	return vp.MemoBool("contains", c.X, c.Y)
}

// VP_C02_BisectSym2: the 2D twin of VP_C02_BisectSym: BisectInterior for
// symbolic (bit-precise float64) ends of an axis-parallel segment returns a
// point the solid was asked about and answered "contained" for.
func VP_C02_BisectSym2() {
	n := vp.Param("n")
	stub := &vpStubSolid2{min: XY(-10, -10), max: XY(10, 10)}
	est := &SolidSurfaceEstimator{Solid: stub, BisectCount: n}
	a := XY(vp.Float64("ax"), 0.5)
	b := XY(vp.Float64("bx"), 0.5)
	vp.Assume(vp.All(a.X >= -8, a.X <= 8, b.X >= -8, b.X <= 8))
	in1, in2 := stub.Contains(a), stub.Contains(b)
	vp.Assume(in1 != in2)
	inner := est.BisectInterior(a, b)
	vp.Assert(stub.Contains(inner), "BisectInterior returns a contained point")
	vp.Reach("end")
}
