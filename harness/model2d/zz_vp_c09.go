//go:build verif

package model2d

import (
	"math"

	"github.com/unixpickle/model3d/internal/vp"
)

// VP_C09_HashCongruence2: 2D twin of the 3D hash congruence harness.
func VP_C09_HashCongruence2() {
	var a, b [2]float64
	negZero := math.Copysign(0, -1)
	for i := 0; i < 2; i++ {
		switch vp.Choice("case", 3) {
		case 0:
			x := vp.Float64("x")
			a[i], b[i] = x, x
		case 1:
			a[i], b[i] = 0, negZero
		case 2:
			a[i], b[i] = negZero, 0
		}
	}
	k1, k2 := NewCoordArray(a), NewCoordArray(b)
	vp.Assert(k1 == k2, "the two keys are equal under ==")
	vp.Assert(k1.fastHash64() == k2.fastHash64(), "==-equal coordinates have equal 64-bit hashes")
	vp.Assert(k1.fastHash() == k2.fastHash(), "==-equal coordinates have equal 32-bit hashes")
	vp.Reach("end")
}
