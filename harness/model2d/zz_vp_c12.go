//go:build verif

package model2d

import (
	"github.com/unixpickle/model3d/internal/vp"
)

// VP_C12_Split2: msBlock.Split on a block with symbolic integer bounds.
func VP_C12_Split2() {
	ext := vp.Param("maxExtent")
	var b msBlock
	for i := 0; i < 2; i++ {
		b.min[i] = vp.Int("min", 0, ext)
		b.max[i] = vp.Int("max", 0, ext)
		vp.Assume(b.min[i] < b.max[i])
	}
	s1, s2 := b.Split()
	ax := -1
	for i := 0; i < 2; i++ {
		if s1.max[i] != b.max[i] {
			ax = i
		}
	}
	longest := 0
	for i := 0; i < 2; i++ {
		if b.max[i]-b.min[i] > longest {
			longest = b.max[i] - b.min[i]
		}
	}
	vp.Assert(s1.min == b.min, "first half starts at the block's min")
	vp.Assert(s2.max == b.max, "second half ends at the block's max")
	if longest >= 2 {
		vp.Assert(ax >= 0, "a block with an extent >= 2 is really cut")
		vp.Assert(b.max[ax]-b.min[ax] == longest, "the cut is along a longest axis")
		vp.Assert(vp.And(s1.max[ax] > b.min[ax], s1.max[ax] < b.max[ax]), "both halves are non-empty")
	}
	for i := 0; i < 2; i++ {
		if i != ax {
			vp.Assert(vp.And(s1.max[i] == b.max[i], s2.min[i] == b.min[i]), "other axes untouched")
		} else {
			vp.Assert(s2.min[i] == s1.max[i], "halves meet at the cut")
		}
	}
	vp.Reach("end")
}

// VP_C12_Pieces2: msBlock.Pieces visits every cell exactly once.
func VP_C12_Pieces2() {
	ex, ey := vp.Param("ex"), vp.Param("ey")
	b := msBlock{min: [2]int{1, 2}, max: [2]int{1 + ex, 2 + ey}}
	minArea := vp.Concrete(vp.Int("minArea", 1, vp.Param("maxMinArea")))
	useFilter := vp.Choice("filter", 2) == 1
	visits := map[[2]int]int{}
	rejected := map[[2]int]bool{}
	b.Pieces(minArea, func(p *msBlock) bool {
		if !useFilter {
			return true
		}
		keep := vp.Bool("keep")
		if !keep {
			for x := p.min[0]; x < p.max[0]; x++ {
				for y := p.min[1]; y < p.max[1]; y++ {
					rejected[[2]int{x, y}] = true
				}
			}
		}
		return keep
	}, func(p *msBlock) {
		for x := p.min[0]; x < p.max[0]; x++ {
			for y := p.min[1]; y < p.max[1]; y++ {
				visits[[2]int{x, y}]++
			}
		}
	})
	for x := b.min[0]; x < b.max[0]; x++ {
		for y := b.min[1]; y < b.max[1]; y++ {
			c := [2]int{x, y}
			if rejected[c] {
				vp.Assert(visits[c] == 0, "cells of a rejected block are not visited")
			} else {
				vp.Assert(visits[c] == 1, "every cell of an accepted region is visited exactly once")
			}
		}
	}
	vp.Assert(len(visits)+len(rejected) == ex*ey, "no cell outside the block is visited")
	vp.Reach("end")
}

// VP_C12_BlockBounds2: the rectangle handed to region filters encloses every
// lattice point of the block (and, for epsilon > 0, strictly), so a
// conservative filter sees everything the block can produce.
func VP_C12_BlockBounds2() {
	n := vp.Param("n")
	sp := &squareSpacer{}
	for i := 0; i < n; i++ {
		sp.Xs = append(sp.Xs, vp.Float64("x"))
		sp.Ys = append(sp.Ys, vp.Float64("y"))
		if i > 0 {
			vp.Assume(vp.And(sp.Xs[i-1] < sp.Xs[i], sp.Ys[i-1] < sp.Ys[i]))
		}
	}
	b := msBlock{spacer: sp}
	for i := 0; i < 2; i++ {
		b.min[i] = vp.Int("min", 0, n-1)
		b.max[i] = vp.Int("max", 0, n-1)
		vp.Assume(b.min[i] < b.max[i])
	}
	eps := vp.Float64("eps")
	vp.Assume(eps >= 0)
	r := b.Bounds(eps)
	// any lattice point of the block
	ix, iy := vp.Int("ix", 0, n-1), vp.Int("iy", 0, n-1)
	vp.Assume(vp.All(ix >= b.min[0], ix <= b.max[0], iy >= b.min[1], iy <= b.max[1]))
	px, py := sp.Xs[ix], sp.Ys[iy]
	vp.Assert(vp.All(r.MinVal.X <= px, px <= r.MaxVal.X, r.MinVal.Y <= py, py <= r.MaxVal.Y), "block bounds enclose every lattice point of the block")
	vp.Reach("end")
}
