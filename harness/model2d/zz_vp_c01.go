//go:build verif

package model2d

import (
	"github.com/unixpickle/model3d/internal/vp"
)

// C01/C02/C12 — marching squares and bitmap outlining.

const vpMaxSegs = 2

func vpFlatTable() (lens [16]int, flat [16][vpMaxSegs]msSegment) {
	table := msLookupTable()
	for i, row := range table {
		if len(row) > vpMaxSegs {
			panic("vp: table row longer than expected")
		}
		lens[i] = len(row)
		copy(flat[i][:], row)
	}
	return
}

type vpRow struct {
	n   int
	seg [vpMaxSegs]msSegment
}

func vpSelectRow(lens *[16]int, flat *[16][vpMaxSegs]msSegment, bits msIntersections) vpRow {
	return vpRow{n: lens[bits], seg: flat[bits]}
}

func vpVertexID(a, b msCorner) uint8 {
	lo := vp.IteU8(a < b, uint8(a), uint8(b))
	hi := vp.IteU8(a < b, uint8(b), uint8(a))
	return lo*4 + hi
}

func vpInside(bits msIntersections, c msCorner) bool { return (bits>>c)&1 == 1 }

func vpIsSquareEdge(a, b msCorner) bool {
	d := a ^ b
	return vp.Or(d == 1, d == 2)
}

func vpB2I(b bool) uint8 { return vp.IteU8(b, 1, 0) }

// VP_C01_MSCell: for every one of the 16 rows (symbolic index): each segment
// end is the midpoint of a sign-changing square edge, each sign-changing edge
// is the end of exactly one segment in the cell, and the segment direction
// keeps the contained corner on its right-hand... (orientation is decided in
// VP_C01_MSOrient with the real Segment.Normal).
func VP_C01_MSCell() {
	lens, flat := vpFlatTable()
	bits := msIntersections(vp.Uint8("bits"))
	vp.Assume(bits < 16)
	row := vpSelectRow(&lens, &flat, bits)
	vp.Assert(vp.And(row.n >= 0, row.n <= vpMaxSegs), "row length in range")
	for k := 0; k < vpMaxSegs; k++ {
		s := row.seg[k]
		live := k < row.n
		for i := 0; i < 2; i++ {
			a, b := s[2*i], s[2*i+1]
			ok := vp.All(a < 4, b < 4, vpIsSquareEdge(a, b), vpInside(bits, a) != vpInside(bits, b))
			vp.Assert(vp.Implies(live, ok), "segment end on a sign-changing square edge")
		}
		vp.Assert(vp.Implies(live, vpVertexID(s[0], s[1]) != vpVertexID(s[2], s[3])), "segment has two distinct ends")
	}
	for a := msCorner(0); a < 4; a++ {
		for _, bit := range []msCorner{1, 2} {
			b := a ^ bit
			if b < a {
				continue
			}
			id := uint8(a)*4 + uint8(b)
			cnt := uint8(0)
			for k := 0; k < vpMaxSegs; k++ {
				s := row.seg[k]
				for i := 0; i < 2; i++ {
					cnt += vpB2I(vp.And(k < row.n, vpVertexID(s[2*i], s[2*i+1]) == id))
				}
			}
			changing := vpInside(bits, a) != vpInside(bits, b)
			vp.Assert(vp.Implies(changing, cnt == 1), "a sign-changing edge is the end of exactly one segment of the cell")
			vp.Assert(vp.Implies(vp.Not(changing), cnt == 0), "no vertex on an edge whose ends agree")
		}
	}
	vp.Reach("end")
}

// vpLattice2 builds a spacer and one solidCache per row with symbolic values.
func vpLattice2(nx, ny int) (*squareSpacer, []*solidCache) {
	sp := &squareSpacer{Xs: make([]float64, nx), Ys: make([]float64, ny)}
	for i := range sp.Xs {
		sp.Xs[i] = float64(i)
	}
	for i := range sp.Ys {
		sp.Ys[i] = float64(i)
	}
	caches := make([]*solidCache, ny)
	for y := range caches {
		c := newSolidCache(nil, sp)
		for i := range c.values {
			c.values[i] = vp.Bool("inside")
		}
		caches[y] = c
	}
	return sp, caches
}

// VP_C01_MSPair: two cells sharing an edge: the shared vertex is the end of a
// segment on one side and the start of a segment on the other (one incoming,
// one outgoing), for every assignment of the 6 lattice points. The bits are
// assembled exactly as MarchingSquares does.
func VP_C01_MSPair() {
	axis := vp.Param("axis")
	lens, flat := vpFlatTable()
	var b1, b2 msIntersections
	if axis == 0 {
		_, c := vpLattice2(3, 2)
		b1 = c[0].GetSegment(0) | (c[1].GetSegment(0) << 2)
		b2 = c[0].GetSegment(1) | (c[1].GetSegment(1) << 2)
	} else {
		_, c := vpLattice2(2, 3)
		b1 = c[0].GetSegment(0) | (c[1].GetSegment(0) << 2)
		b2 = c[1].GetSegment(0) | (c[2].GetSegment(0) << 2)
	}
	r1 := vpSelectRow(&lens, &flat, b1)
	r2 := vpSelectRow(&lens, &flat, b2)
	m := msCorner(1) << uint(axis)
	// shared edge: corners with bit m set in cell 1 == corners with bit clear in cell 2
	var e1a, e1b msCorner // edge in cell 1
	for c := msCorner(0); c < 4; c++ {
		if c&m != 0 {
			e1b = c
		}
	}
	e1a = e1b ^ (3 ^ m) // the other corner with bit m set
	id1 := vpVertexID(e1a, e1b)
	id2 := vpVertexID(e1a^m, e1b^m)
	count := func(r vpRow, id uint8, end int) uint8 {
		n := uint8(0)
		for k := 0; k < vpMaxSegs; k++ {
			s := r.seg[k]
			n += vpB2I(vp.And(k < r.n, vpVertexID(s[2*end], s[2*end+1]) == id))
		}
		return n
	}
	start1, end1 := count(r1, id1, 0), count(r1, id1, 1)
	start2, end2 := count(r2, id2, 0), count(r2, id2, 1)
	vp.Assert(start1+start2 == end1+end2, "shared vertex: as many outgoing as incoming segments")
	vp.Assert(start1+start2 <= 1, "shared vertex: at most one outgoing segment")
	vp.Assert(start1 == end2, "a segment starting at the shared vertex in one cell ends there in the other")
	vp.Assert(start2 == end1, "a segment ending at the shared vertex in one cell starts there in the other")
	vp.Reach("end")
}

// VP_C01_MSOrient: for each of the 16 rows (index concretised by the solver)
// the real msSegment.Segment + Segment.Normal point from the contained corner
// to the excluded corner of each end's square edge.
func VP_C01_MSOrient() {
	table := msLookupTable()
	bitsSym := int(vp.Uint8("bits"))
	vp.Assume(bitsSym < 16)
	bits := msIntersections(vp.Concrete(bitsSym))
	corners := msCornerCoordinates(XY(0, 0), XY(1, 1))
	for _, s := range table[bits] {
		seg := s.Segment(corners)
		n := seg.Normal()
		for i := 0; i < 2; i++ {
			a, b := s[2*i], s[2*i+1]
			in, out := a, b
			if !vpInside(bits, a) {
				in, out = b, a
			}
			d := corners[out].Sub(corners[in])
			vp.Assert(n.Dot(d) > 0, "normal points from the contained corner to the excluded corner")
		}
	}
	vp.Reach("end")
}

// VP_C12_SquareBits: msBlockCache.GetSquare reads the same bits as the row
// caches used by the unfiltered MarchingSquares.
func VP_C12_SquareBits() {
	nx, ny := vp.Param("nx"), vp.Param("ny")
	sp, caches := vpLattice2(nx, ny)
	block := newMsBlock(sp)
	bc := newMsBlockCache()
	bc.block = &block
	for y := 0; y < ny; y++ {
		for x := 0; x < nx; x++ {
			bc.values = append(bc.values, caches[y].values[x])
		}
	}
	for y := 0; y < ny-1; y++ {
		for x := 0; x < nx-1; x++ {
			rowBits := caches[y].GetSegment(x) | (caches[y+1].GetSegment(x) << 2)
			vp.Assert(bc.GetSquare(x, y) == rowBits, "block cache and row cache agree on the corner bits")
		}
	}
	vp.Reach("end")
}

// VP_C01_Bitmap: Bitmap.Mesh on a w x h bitmap with symbolic pixels: every
// vertex has exactly one incoming and one outgoing segment.
func VP_C01_Bitmap() {
	w, h := vp.Param("w"), vp.Param("h")
	b := NewBitmap(w, h)
	any := false
	for i := range b.Data {
		b.Data[i] = vp.Bool("pixel")
		any = vp.Or(any, b.Data[i])
	}
	m := b.Mesh()
	vp.Assert(m.Manifold(), "Manifold()")
	vp.Assert(len(m.InconsistentVertices()) == 0, "no inconsistent vertices")
	in := NewCoordToNumber[int]()
	out := NewCoordToNumber[int]()
	m.Iterate(func(s *Segment) {
		out.Add(s[0], 1)
		in.Add(s[1], 1)
	})
	ok := true
	out.Range(func(c Coord, n int) bool {
		if n != 1 || in.Value(c) != 1 {
			ok = false
		}
		return true
	})
	in.Range(func(c Coord, n int) bool {
		if n != 1 || out.Value(c) != 1 {
			ok = false
		}
		return true
	})
	vp.Assert(ok, "every vertex has exactly one incoming and one outgoing segment")
	// orientation: signed area (normals outward => clockwise/ccw convention of the library)
	if len(m.SegmentSlice()) > 0 {
		vp.Assert(vpOutwardNormals(b, m), "normals point from pixels to background")
	}
	vp.Reach("end")
}

// vpOutwardNormals: stepping from a segment midpoint a little against the
// normal enters a true pixel; for segments on the pixel grid stepping along it
// leaves the true pixels.
func vpOutwardNormals(b *Bitmap, m *Mesh) bool {
	ok := true
	m.Iterate(func(s *Segment) {
		mid := s.Mid()
		n := s.Normal()
		// (corner pull-in moves some segments 0.25 into their own pixel, so only
		// the inward side can be classified by pixel lookup)
		inP := mid.Sub(n.Scale(0.125))
		if !b.Get(vpFloor(inP.X), vpFloor(inP.Y)) {
			ok = false
		}
		onGrid := mid.X == float64(vpFloor(mid.X)) || mid.Y == float64(vpFloor(mid.Y))
		outP := mid.Add(n.Scale(0.125))
		if onGrid && b.Get(vpFloor(outP.X), vpFloor(outP.Y)) {
			ok = false
		}
	})
	return ok
}

func vpFloor(x float64) int {
	i := int(x)
	if float64(i) > x {
		i--
	}
	return i
}
