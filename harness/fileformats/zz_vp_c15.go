//go:build verif

package fileformats

import (
	"bytes"
	"encoding/binary"
	"io"
	"math"

	"github.com/unixpickle/model3d/internal/vp"
)

// C15 — writers and readers of the library round-trip.

// VP_C15_STLRecord: n triangles with symbolic float32 coordinates written by
// STLWriter and read back by STLReader come back bit-identical, in order,
// followed by io.EOF; the header count is the number of triangles.
func VP_C15_STLRecord() {
	n := vp.Param("n")
	var buf bytes.Buffer
	w, err := NewSTLWriter(&buf, uint32(n))
	vp.Assert(err == nil, "NewSTLWriter succeeds on a buffer")
	var normals [][3]float32
	var faces [][3][3]float32
	for i := 0; i < n; i++ {
		var nm [3]float32
		var f [3][3]float32
		// two symbolic values per triangle (any non-NaN float32, incl. -0,
		// subnormals, infinities), the rest fixed
		nm[0] = vp.AnyFloat32("normal")
		vp.Assume(nm[0] == nm[0])
		f[0][0] = 1.5
		f[1][2] = vp.AnyFloat32("coord")
		vp.Assume(f[1][2] == f[1][2])
		f[2][1] = -0.25
		normals = append(normals, nm)
		faces = append(faces, f)
		vp.Assert(w.WriteTriangle(nm, f) == nil, "WriteTriangle succeeds")
	}
	vp.Assert(w.WriteTriangle([3]float32{}, [3][3]float32{}) != nil, "writing more triangles than announced is an error")
	vp.Assert(buf.Len() == 84+50*n, "binary STL has an 84-byte header and 50 bytes per triangle")

	r, err := NewSTLReader(bytes.NewReader(buf.Bytes()))
	vp.Assert(err == nil, "NewSTLReader accepts the written file")
	vp.Assert(r.IsBinary(), "the written file is recognised as binary")
	vp.Assert(int(r.NumTriangles()) == n, "header count is the number of triangles")
	for i := 0; i < n; i++ {
		nm, f, err := r.ReadTriangle()
		vp.Assert(err == nil, "every written triangle can be read back")
		for a := 0; a < 3; a++ {
			vp.Assert(math.Float32bits(nm[a]) == math.Float32bits(normals[i][a]), "normal comes back bit-identical")
			for b := 0; b < 3; b++ {
				vp.Assert(math.Float32bits(f[a][b]) == math.Float32bits(faces[i][a][b]), "vertices come back bit-identical and in order")
			}
		}
	}
	_, _, err = r.ReadTriangle()
	vp.Assert(err == io.EOF, "io.EOF after the last triangle")
	vp.Reach("end")
}

func vpPLYValue(t PLYPropertyType, label string) PLYValue {
	switch t {
	case PLYPropertyTypeChar, PLYPropertyTypeInt8:
		return PLYValueInt8{Value: vp.Int8(label)}
	case PLYPropertyTypeUchar, PLYPropertyTypeUint8:
		return PLYValueUint8{Value: vp.Uint8(label)}
	case PLYPropertyTypeShort, PLYPropertyTypeInt16:
		return PLYValueInt16{Value: vp.Int16(label)}
	case PLYPropertyTypeUshort, PLYPropertyTypeUint16:
		return PLYValueUint16{Value: vp.Uint16(label)}
	case PLYPropertyTypeInt, PLYPropertyTypeInt32:
		return PLYValueInt32{Value: vp.Int32(label)}
	case PLYPropertyTypeUint, PLYPropertyTypeUint32:
		return PLYValueUint32{Value: vp.Uint32(label)}
	case PLYPropertyTypeFloat, PLYPropertyTypeFloat32:
		f := vp.AnyFloat32(label)
		vp.Assume(f == f)
		return PLYValueFloat32{Value: f}
	case PLYPropertyTypeDouble, PLYPropertyTypeFloat64:
		f := vp.AnyFloat64(label)
		vp.Assume(f == f)
		return PLYValueFloat64{Value: f}
	}
	panic("bad type")
}

func vpSameValue(a, b PLYValue) bool {
	switch x := a.(type) {
	case PLYValueFloat32:
		y, ok := b.(PLYValueFloat32)
		return ok && math.Float32bits(x.Value) == math.Float32bits(y.Value)
	case PLYValueFloat64:
		y, ok := b.(PLYValueFloat64)
		return ok && math.Float64bits(x.Value) == math.Float64bits(y.Value)
	case PLYValueList:
		y, ok := b.(PLYValueList)
		if !ok || len(x.Values) != len(y.Values) || !vpSameValue(x.Length, y.Length) {
			return false
		}
		for i := range x.Values {
			if !vpSameValue(x.Values[i], y.Values[i]) {
				return false
			}
		}
		return true
	}
	return a == b
}

var vpPLYTypes = []PLYPropertyType{
	PLYPropertyTypeChar, PLYPropertyTypeUchar, PLYPropertyTypeShort, PLYPropertyTypeUshort,
	PLYPropertyTypeInt, PLYPropertyTypeUint, PLYPropertyTypeFloat, PLYPropertyTypeDouble,
	PLYPropertyTypeInt8, PLYPropertyTypeUint8, PLYPropertyTypeInt16, PLYPropertyTypeUint16,
	PLYPropertyTypeInt32, PLYPropertyTypeUint32, PLYPropertyTypeFloat32, PLYPropertyTypeFloat64,
}

// VP_C15_PLYValue: for every property type and both byte orders,
// DecodeBinary(EncodeBinary(v)) == v and the encoding has Size() bytes.
func VP_C15_PLYValue() {
	for _, t := range vpPLYTypes {
		vp.Assert(t.Validate() == nil, "every type name validates")
		v := vpPLYValue(t, "v")
		for _, order := range []binary.ByteOrder{binary.LittleEndian, binary.BigEndian} {
			enc := v.EncodeBinary(order)
			vp.Assert(len(enc) == t.Size(), "EncodeBinary writes Size() bytes")
			dec, err := t.DecodeBinary(order, enc)
			vp.Assert(err == nil, "DecodeBinary accepts Size() bytes")
			vp.Assert(vpSameValue(dec, v), "DecodeBinary(EncodeBinary(v)) == v")
		}
	}
	vp.Reach("end")
}

// VP_C15_PLYStream: a binary PLY stream of two declared elements (one with a
// list property) with element counts in [0,2] written by PLYWriter is read
// back by PLYReader row by row: same element, same values, then io.EOF.
func VP_C15_PLYStream() {
	types := []PLYPropertyType{PLYPropertyTypeFloat, PLYPropertyTypeUchar, PLYPropertyTypeShort, PLYPropertyTypeDouble}
	format := []PLYFormat{PLYFormatBinaryLittle, PLYFormatBinaryBig}[vp.Param("big")]
	if vp.Param("cap") == 1 {
		// lists longer than the pre-allocation cap (source cut: the cap is a
		// variable) must still be read completely
		old := maxPreallocate
		maxPreallocate = 1
		defer func() { maxPreallocate = old }()
	}
	c1, c2, c3 := vp.Choice("count1", 3), vp.Choice("count2", 3), vp.Choice("count3", 2)
	h := &PLYHeader{Format: format, Elements: []*PLYElement{
		{Name: "vertex", Count: int64(c1), Properties: []*PLYProperty{
			{Name: "x", ElemType: types[vp.Choice("t1", len(types))]},
			{Name: "c", ElemType: PLYPropertyTypeUchar},
		}},
		{Name: "face", Count: int64(c2), Properties: []*PLYProperty{
			{Name: "idx", LenType: PLYPropertyTypeUchar, ElemType: PLYPropertyTypeInt},
		}},
		{Name: "extra", Count: int64(c3), Properties: []*PLYProperty{
			{Name: "w", ElemType: PLYPropertyTypeUshort},
		}},
	}}
	var buf bytes.Buffer
	w, err := NewPLYWriter(&buf, h)
	vp.Assert(err == nil, "NewPLYWriter succeeds")
	type row struct {
		el   int
		vals []PLYValue
	}
	var rows []row
	for e, el := range h.Elements {
		for i := int64(0); i < el.Count; i++ {
			var vals []PLYValue
			for _, p := range el.Properties {
				if p.LenType == PLYPropertyTypeNone {
					vals = append(vals, vpPLYValue(p.ElemType, "v"))
				} else {
					n := vp.Choice("listlen", 3)
					l := PLYValueList{Length: PLYValueUint8{Value: uint8(n)}}
					for j := 0; j < n; j++ {
						l.Values = append(l.Values, vpPLYValue(p.ElemType, "lv"))
					}
					vals = append(vals, l)
				}
			}
			vp.Assert(w.Write(vals) == nil, "PLYWriter.Write accepts a declared row")
			rows = append(rows, row{e, vals})
		}
	}
	vp.Assert(w.Write([]PLYValue{PLYValueUint16{Value: 1}}) != nil, "writing more rows than declared is an error")

	r, err := NewPLYReader(bytes.NewReader(buf.Bytes()))
	vp.Assert(err == nil, "NewPLYReader accepts the written header")
	vp.Assert(len(r.Header().Elements) == 3 && r.Header().Format == format, "header round-trips")
	for _, want := range rows {
		vals, el, err := r.Read()
		vp.Assert(err == nil, "every written row can be read back")
		vp.Assert(el.Name == h.Elements[want.el].Name, "row is attributed to the element it was written for")
		vp.Assert(len(vals) == len(want.vals), "row has one value per property")
		for i := range want.vals {
			if i < len(vals) {
				vp.Assert(vpSameValue(vals[i], want.vals[i]), "values round-trip")
			}
		}
	}
	_, _, err = r.Read()
	vp.Assert(err == io.EOF, "io.EOF after the last declared row")
	vp.Reach("end")
}
