//go:build verif

package toolbox3d

import (
	"github.com/unixpickle/model3d/internal/vp"
	"github.com/unixpickle/model3d/model3d"
)

func vpRect(label string, lowDims int) *model3d.Rect {
	// the first lowDims axes are symbolic, the others span [0,1]
	min, max := [3]float64{0, 0, 0}, [3]float64{1, 1, 1}
	for a := 0; a < lowDims; a++ {
		min[a], max[a] = vp.Float64(label+".min"), vp.Float64(label+".max")
		vp.Assume(min[a] < max[a])
	}
	return &model3d.Rect{MinVal: model3d.NewCoord3DArray(min), MaxVal: model3d.NewCoord3DArray(max)}
}

// VP_C04_RectSet: the box-set solid (split-plane tree) answers like the plain
// union of the set's boxes at every point, and the set's boxes are the union
// of the added boxes (minus the removed one): n symbolic boxes are added
// (symbolic extents along the first dims axes), optionally one more is
// removed.
func VP_C04_RectSet() {
	n, dims := vp.Param("n"), vp.Param("dims")
	rs := NewRectSet()
	var added []*model3d.Rect
	for i := 0; i < n; i++ {
		r := vpRect("add", dims)
		added = append(added, r)
		rs.Add(r)
	}
	var p model3d.Coord3D
	pa := [3]float64{0.5, 0.5, 0.5}
	for a := 0; a < dims; a++ {
		pa[a] = vp.Float64("p")
	}
	p = model3d.NewCoord3DArray(pa)

	inAdded := false
	for _, r := range added {
		inAdded = vp.Or(inAdded, r.Contains(p))
	}
	plain := func() bool {
		in := false
		for r := range rs.rects {
			r := r
			in = vp.Or(in, r.Contains(p))
		}
		return in
	}
	vp.Assert(plain() == inAdded, "the set's boxes cover exactly the union of the added boxes")
	vp.Assert(rs.Solid().Contains(p) == inAdded, "RectSet.Solid() contains exactly the union of the added boxes")

	if vp.Param("remove") == 1 {
		rm := vpRect("remove", dims)
		rs.Remove(rm)
		pl := plain()
		vp.Assert(rs.Solid().Contains(p) == pl, "after Remove: RectSet.Solid() answers like the plain union of the set's boxes")
		// removed volume is gone (interior), everything outside the removed box is kept
		strictlyIn := true
		outside := false
		pa, mn, mx := p.Array(), rm.MinVal.Array(), rm.MaxVal.Array()
		for a := 0; a < 3; a++ {
			strictlyIn = vp.And(strictlyIn, vp.And(pa[a] > mn[a], pa[a] < mx[a]))
			outside = vp.Or(outside, vp.Or(pa[a] < mn[a], pa[a] > mx[a]))
		}
		vp.Assert(vp.Implies(strictlyIn, !pl), "after Remove: the interior of the removed box is not contained")
		vp.Assert(vp.Implies(outside, pl == inAdded), "after Remove: points outside the removed box are unchanged")
	}
	if mn, mx := rs.Min(), rs.Max(); len(rs.rects) > 0 {
		vp.Assert(vp.Implies(rs.Solid().Contains(p), vp.All(p.X >= mn.X, p.X <= mx.X, p.Y >= mn.Y, p.Y <= mx.Y, p.Z >= mn.Z, p.Z <= mx.Z)), "contained points are inside the set's bounds")
	}
	vp.Reach("end")
}
