//go:build verif

package toolbox3d

import (
	"github.com/unixpickle/model3d/internal/vp"
	"github.com/unixpickle/model3d/model2d"
)

// VP_C13_HeightMapFill: AddSpheresSDF fills one height map from GOMAXPROCS
// worker goroutines; its own shared state (the height grid) must not race.
func VP_C13_HeightMapFill() {
	h := NewHeightMap(model2d.XY(-1, -1), model2d.XY(1, 1), 3)
	p := &model2d.Circle{Radius: 1}
	vp.ExploreSchedules()
	// maxr=1: a sphere-size limit below the shape's inradius, so the fill branch (AddSphereFill) runs
	h.AddSpheresSDF(p, vp.Param("spheres"), 0.01, 0.25*float64(vp.Param("maxr")))
	vp.Assert(h.MaxHeight() >= 0, "height map filled")
	vp.Reach("end")
}
