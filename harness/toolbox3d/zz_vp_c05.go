//go:build verif

package toolbox3d

import (
	"github.com/unixpickle/model3d/internal/vp"
	"github.com/unixpickle/model3d/model3d"
)

func vpPoint3(label string) model3d.Coord3D {
	return model3d.XYZ(vp.Float64(label+".x"), vp.Float64(label+".y"), vp.Float64(label+".z"))
}

// VP_C05_SqueezeLaws: the toolbox's axis transforms (AxisSqueeze with a
// symbolic ratio; AxisPinch with power 2, 1/2, 4 or 1/4) invert in both
// orders and their ApplyBounds encloses the image of every point of the box.
// Axis from the parameter; region bounds, box and point symbolic.
func VP_C05_SqueezeLaws() {
	axis := Axis(vp.Param("axis"))
	lo, hi := vp.Float64("min"), vp.Float64("max")
	vp.Assume(lo < hi)
	var t model3d.Transform
	switch vp.Param("kind") {
	case 0:
		r := vp.Float64("ratio")
		vp.Assume(r > 0)
		t = &AxisSqueeze{Axis: axis, Min: lo, Max: hi, Ratio: r}
	case 1:
		t = &AxisPinch{Axis: axis, Min: lo, Max: hi, Power: 2}
	case 2:
		t = &AxisPinch{Axis: axis, Min: lo, Max: hi, Power: 0.5}
	case 3:
		t = &AxisPinch{Axis: axis, Min: lo, Max: hi, Power: 0.25}
	}
	p := vpPoint3("p")
	same := func(a, b model3d.Coord3D, label string) {
		vp.AssertNear(a.X, b.X, 1e-9, label+" (x)")
		vp.AssertNear(a.Y, b.Y, 1e-9, label+" (y)")
		vp.AssertNear(a.Z, b.Z, 1e-9, label+" (z)")
	}
	inv := t.Inverse()
	same(inv.Apply(t.Apply(p)), p, "Inverse().Apply(Apply(p)) == p")
	same(t.Apply(inv.Apply(p)), p, "Apply(Inverse().Apply(p)) == p")

	bmin, bmax := vpPoint3("bmin"), vpPoint3("bmax")
	vp.Assume(vp.All(bmin.X <= bmax.X, bmin.Y <= bmax.Y, bmin.Z <= bmax.Z))
	vp.Assume(vp.All(p.X >= bmin.X, p.Y >= bmin.Y, p.Z >= bmin.Z, p.X <= bmax.X, p.Y <= bmax.Y, p.Z <= bmax.Z))
	nmin, nmax := t.ApplyBounds(bmin, bmax)
	q := t.Apply(p)
	vp.Assert(vp.All(nmin.X <= nmax.X, nmin.Y <= nmax.Y, nmin.Z <= nmax.Z), "ApplyBounds returns min <= max")
	vp.Assert(vp.All(q.X >= nmin.X, q.Y >= nmin.Y, q.Z >= nmin.Z, q.X <= nmax.X, q.Y <= nmax.Y, q.Z <= nmax.Z), "ApplyBounds encloses the image of every point of the box")
	vp.Reach("end")
}
