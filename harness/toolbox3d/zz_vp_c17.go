//go:build verif

package toolbox3d

import (
	"math"

	"github.com/unixpickle/model3d/internal/vp"
)

// VP_C17_Angles: CanonicalAngle returns the congruent angle in [0, 2*pi);
// AngleDist is the circular distance.
func VP_C17_Angles() {
	theta := vp.Float64("theta")
	vp.Assume(vp.And(theta >= -20, theta <= 20))
	res := CanonicalAngle(theta)
	vp.Assert(vp.And(res >= 0, res < 2*math.Pi), "CanonicalAngle is in [0, 2*pi)")
	k := (theta - res) / (2 * math.Pi)
	vp.AssertNear(k, math.Round(k), 1e-9, "CanonicalAngle is congruent to its argument modulo 2*pi")

	theta2 := vp.Float64("theta2")
	vp.Assume(vp.And(theta2 >= -20, theta2 <= 20))
	d := AngleDist(theta, theta2)
	vp.Assert(vp.And(d >= 0, d <= math.Pi*(1+1e-12)), "AngleDist is in [0, pi]")
	// d is congruent to +-(theta-theta2) modulo 2*pi
	k1 := (theta - theta2 - d) / (2 * math.Pi)
	k2 := (theta - theta2 + d) / (2 * math.Pi)
	near := func(x float64) bool {
		return math.Abs(x-math.Round(x)) <= 1e-9
	}
	vp.Assert(vp.Or(near(k1), near(k2)), "AngleDist is the circular distance between the angles")
	vp.Reach("end")
}
