//go:build verif

package numerical

import (
	"github.com/unixpickle/model3d/internal/vp"
)

func vpPoly(name string, n int) Polynomial {
	p := make(Polynomial, n)
	for i := range p {
		p[i] = vp.Float64(name)
	}
	return p
}

func vpEval(p Polynomial, x float64) float64 {
	// Horner reference
	r := 0.0
	for i := len(p) - 1; i >= 0; i-- {
		r = r*x + p[i]
	}
	return r
}

// VP_C17_PolyAlgebra: Eval, Add, Mul, Scale, Derivative, divideRoot satisfy
// their defining equations for symbolic coefficients.
func VP_C17_PolyAlgebra() {
	n, k := vp.Param("n"), vp.Param("k")
	p, q := vpPoly("p", n), vpPoly("q", k)
	x := vp.Float64("x")
	c := vp.Float64("c")
	vp.Assert(p.Eval(x) == vpEval(p, x), "Polynomial.Eval")
	vp.Assert(p.Scale(c).Eval(x) == c*vpEval(p, x), "Polynomial.Scale")
	vp.Assert(vpEval(p.Add(q), x) == vpEval(p, x)+vpEval(q, x), "Polynomial.Add")
	vp.Assert(vpEval(p.Mul(q), x) == vpEval(p, x)*vpEval(q, x), "Polynomial.Mul")
	d := p.Derivative()
	vp.Assert(len(d) == n-1 || n == 0, "Derivative lowers the degree")
	for i := range d {
		vp.Assert(d[i] == float64(i+1)*p[i+1], "Derivative coefficient")
	}
	if n >= 2 {
		r := vp.Float64("r")
		quo := p.divideRoot(r)
		// p(x) = (x-r)*quo(x) + p(r)
		if n > 2 {
			vp.Assert(vpEval(p, x) == (x-r)*vpEval(quo, x)+vpEval(p, r), "divideRoot is synthetic division")
		}
	}
	vp.Reach("end")
}

// VP_C17_PolyRoots: closed-form roots (degree 1 and 2, with leading zeros
// stripped): every reported root is a root, they come in ascending order,
// and no real root is missed.
func VP_C17_PolyRoots() {
	n := vp.Param("n")
	p := vpPoly("p", n)
	var roots []float64
	p.IterRealRoots(func(x float64) bool {
		roots = append(roots, x)
		return true
	})
	// effective degree
	deg := -1
	// find highest non-zero coefficient on this path (the code branched on it)
	x := vp.Float64("x")
	for _, r := range roots {
		if r != r {
			continue // NaN: "infinitely many roots" marker for the zero polynomial
		}
		vp.AssertNear(vpEval(p, r), 0, 1e-9, "reported roots are roots")
	}
	for i := 1; i < len(roots); i++ {
		vp.Assert(roots[i-1] <= roots[i], "roots are reported in ascending order")
	}
	_ = deg
	// completeness: any x with p(x)=0 is one of the reported roots (if p is not identically zero)
	allZero := true
	for i := range p {
		allZero = vp.And(allZero, p[i] == 0)
	}
	isRoot := vpEval(p, x) == 0
	found := false
	for _, r := range roots {
		if r != r {
			continue
		}
		found = vp.Or(found, r == x)
	}
	vp.Assert(vp.Implies(vp.And(isRoot, vp.Not(allZero)), found), "no real root is missed")
	vp.Reach("end")
}

// VP_C17_Search: the dense-search optimisers return a point whose value is
// the objective at that point and at least as good as every sample they
// evaluated, for an arbitrary objective (every value a solver variable).
func VP_C17_Search() {
	stops, rec := vp.Param("stops"), vp.Param("rec")
	var xs, vals []float64
	f := func(x float64) float64 {
		v := vp.MemoFloat("f", x)
		xs = append(xs, x)
		vals = append(vals, v)
		return v
	}
	switch vp.Param("kind") {
	case 0:
		ls := &LineSearch{Stops: stops, Recursions: rec}
		x, fx := ls.Maximize(0, 1, f)
		vp.Assert(fx == vp.MemoFloat("f", x), "the reported value is the objective at the reported point")
		for _, v := range vals {
			vp.Assert(fx >= v, "LineSearch.Maximize returns a point at least as good as every sample it evaluated")
		}
		vp.Assert(vp.And(x >= 0, x <= 1), "the reported point lies in the search interval")
	case 1:
		ls := &LineSearch{Stops: stops, Recursions: rec}
		x, fx := ls.Minimize(0, 1, f)
		vp.Assert(fx == vp.MemoFloat("f", x), "the reported value is the objective at the reported point")
		for _, v := range vals {
			vp.Assert(fx <= v, "LineSearch.Minimize returns a point at least as good as every sample it evaluated")
		}
	case 2:
		var pts []Vec2
		var pv []float64
		g := &GridSearch2D{XStops: stops, YStops: stops, Recursions: rec}
		c, fc := g.Maximize(Vec2{0, 0}, Vec2{1, 2}, func(p Vec2) float64 {
			v := vp.MemoFloat("g", p[0], p[1])
			pts = append(pts, p)
			pv = append(pv, v)
			return v
		})
		vp.Assert(fc == vp.MemoFloat("g", c[0], c[1]), "the reported value is the objective at the reported point")
		for _, v := range pv {
			vp.Assert(fc >= v, "GridSearch2D.Maximize returns a point at least as good as every sample it evaluated")
		}
	}
	vp.Reach("end")
}
