//go:build verif

package numerical

import (
	"github.com/unixpickle/model3d/internal/vp"
)

// VP_C13_KMeans: one k-means iteration with GOMAXPROCS worker goroutines:
// the reduction into the shared sums happens under the result lock.
func VP_C13_KMeans() {
	data := []Vec3{{0, 0, 0}, {1, 0, 0}, {10, 0, 0}, {11, 1, 0}}
	km := &KMeans[Vec3]{Centers: []Vec3{{0, 0, 0}, {10, 0, 0}}, Data: data}
	vp.ExploreSchedules()
	e := km.Iterate()
	vp.Assert(e >= 0, "error is non-negative")
	vp.Assert(km.Centers[0] == Vec3{0.5, 0, 0} && km.Centers[1] == Vec3{10.5, 0.5, 0}, "centres are the cluster means")
	vp.Reach("end")
}
