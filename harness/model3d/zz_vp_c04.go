//go:build verif

package model3d

import (
	"github.com/unixpickle/model3d/internal/vp"
)

// C03/C04 — boolean combinators over arbitrary operand solids.

// vpBoxSolid is an arbitrary solid inside symbolic valid bounds: membership is
// an uninterpreted predicate of the point, false outside the bounds.
type vpBoxSolid struct {
	name     string
	min, max Coord3D
}

func vpNewBoxSolid(name string) *vpBoxSolid {
	return vpNewBoxSolidDims(name, 3)
}

// vpNewBoxSolidDims: only the first dims axes of the box are symbolic; the
// others are the fixed interval [0,1] (keeps sort-order forks down).
func vpNewBoxSolidDims(name string, dims int) *vpBoxSolid {
	s := &vpBoxSolid{name: name}
	lo, hi := [3]float64{0, 0, 0}, [3]float64{1, 1, 1}
	for i, ax := range []string{"x", "y", "z"} {
		if i < dims {
			lo[i] = vp.Float64(name + ".min" + ax)
			hi[i] = vp.Float64(name + ".max" + ax)
		}
	}
	s.min, s.max = NewCoord3DArray(lo), NewCoord3DArray(hi)
	vp.Assume(vp.All(s.min.X <= s.max.X, s.min.Y <= s.max.Y, s.min.Z <= s.max.Z))
	return s
}

func vpInBox(c, min, max Coord3D) bool {
	return vp.All(c.X >= min.X, c.Y >= min.Y, c.Z >= min.Z, c.X <= max.X, c.Y <= max.Y, c.Z <= max.Z)
}

func (s *vpBoxSolid) Min() Coord3D { return s.min }
func (s *vpBoxSolid) Max() Coord3D { return s.max }
func (s *vpBoxSolid) Contains(c Coord3D) bool {
	return vp.And(vpInBox(c, s.min, s.max), vp.MemoBool(s.name, c.X, c.Y, c.Z))
}

func vpPoint(name string) Coord3D {
	return XYZ(vp.Float64(name+".x"), vp.Float64(name+".y"), vp.Float64(name+".z"))
}

func vpOperands(n int) ([]Solid, []*vpBoxSolid) {
	names := []string{"A", "B", "C", "D", "E"}
	var res []Solid
	var raw []*vpBoxSolid
	for i := 0; i < n; i++ {
		s := vpNewBoxSolid(names[i])
		res = append(res, s)
		raw = append(raw, s)
	}
	return res, raw
}

func vpPermute(ops []Solid, perm []int) []Solid {
	res := make([]Solid, len(ops))
	for i, j := range perm {
		res[i] = ops[j]
	}
	return res
}

// VP_C04_Boolean: union/intersection/difference equal the pointwise formulas
// for n arbitrary operands in every order; results stay inside their bounds.
func VP_C04_Boolean() {
	n := vp.Param("n")
	ops, _ := vpOperands(n)
	c := vpPoint("c")
	ans := make([]bool, n)
	or, and := false, true
	for i, s := range ops {
		ans[i] = s.Contains(c)
		or = vp.Or(or, ans[i])
		and = vp.And(and, ans[i])
	}
	perm := vp.Perm("perm", n)
	pops := vpPermute(ops, perm)

	j := JoinedSolid(pops)
	vp.Assert(j.Contains(c) == or, "JoinedSolid is the union in every order")
	vp.Assert(BoundsValid(j), "JoinedSolid bounds valid")
	vp.Assert(vp.Implies(or, vpInBox(c, j.Min(), j.Max())), "JoinedSolid: contained points are inside the bounds")
	vp.Assert(vp.And(j.Min() == JoinedSolid(ops).Min(), j.Max() == JoinedSolid(ops).Max()), "JoinedSolid bounds independent of order")

	is := IntersectedSolid(pops)
	vp.Assert(is.Contains(c) == and, "IntersectedSolid is the intersection in every order")
	imin, imax := is.Min(), is.Max()
	vp.Assert(vp.All(imin.X <= imax.X, imin.Y <= imax.Y, imin.Z <= imax.Z), "IntersectedSolid: max >= min")
	vp.Assert(vp.Implies(and, vpInBox(c, imin, imax)), "IntersectedSolid: contained points are inside the bounds")

	if n >= 2 {
		sub := &SubtractedSolid{Positive: pops[0], Negative: JoinedSolid(pops[1:])}
		rest := false
		for i := 1; i < n; i++ {
			rest = vp.Or(rest, ans[perm[i]])
		}
		want := vp.And(ans[perm[0]], vp.Not(rest))
		vp.Assert(sub.Contains(c) == want, "SubtractedSolid is the difference")
		vp.Assert(vp.Implies(want, vpInBox(c, sub.Min(), sub.Max())), "SubtractedSolid: contained points are inside the bounds")
	}
	vp.Reach("end")
}

// VP_C03_Wrappers: wrappers that impose a box neither leak nor cut.
func VP_C03_Wrappers() {
	inner := vpNewBoxSolid("A")
	c := vpPoint("c")
	in := inner.Contains(c)

	cached := CacheSolidBounds(inner)
	vp.Assert(cached.Contains(c) == in, "CacheSolidBounds neither cuts nor adds")

	fmin, fmax := vpPoint("fmin"), vpPoint("fmax")
	vp.Assume(vp.All(fmin.X <= fmax.X, fmin.Y <= fmax.Y, fmin.Z <= fmax.Z))
	forced := ForceSolidBounds(inner, fmin, fmax)
	vp.Assert(forced.Contains(c) == vp.And(in, vpInBox(c, fmin, fmax)), "ForceSolidBounds is the intersection with the box")
	vp.Assert(vp.And(forced.Min() == fmin, forced.Max() == fmax), "ForceSolidBounds reports the given bounds")

	raw := func(p Coord3D) bool { return vp.MemoBool("raw", p.X, p.Y, p.Z) }
	chk := CheckedFuncSolid(fmin, fmax, raw)
	vp.Assert(chk.Contains(c) == vp.And(raw(c), vpInBox(c, fmin, fmax)), "CheckedFuncSolid checks the bounds before the predicate")

	vp.Assert(InBounds(inner, c) == vpInBox(c, inner.min, inner.max), "InBounds")
	r := NewRect(fmin, fmax)
	vp.Assert(r.Contains(c) == vpInBox(c, fmin, fmax), "Rect.Contains is the closed box")
	vp.Assert(BoundsValid(r), "a rect with min<=max and finite corners is valid")
	vp.Reach("end")
}

// VP_C04_Accel: the accelerated forms answer like the plain list.
func VP_C04_Accel() {
	n, dims := vp.Param("n"), vp.Param("dims")
	var ops []Solid
	for i := 0; i < n; i++ {
		ops = append(ops, vpNewBoxSolidDims([]string{"A", "B", "C", "D", "E"}[i], dims))
	}
	c := vpPoint("c")
	ans := make([]bool, n)
	or := false
	cnt := 0
	for i, s := range ops {
		ans[i] = s.Contains(c)
		or = vp.Or(or, ans[i])
		cnt += vp.IteI(ans[i], 1, 0)
	}
	opt := JoinedSolid(ops).Optimize()
	vp.Assert(opt.Contains(c) == or, "JoinedSolid.Optimize() answers like the plain union")
	vp.Assert(vp.Implies(or, vpInBox(c, opt.Min(), opt.Max())), "Optimize(): contained points inside the bounds")

	mux := NewSolidMux(ops)
	vp.Assert(mux.Contains(c) == or, "SolidMux.Contains answers like the plain union")
	all := mux.AllContains(c)
	vp.Assert(len(all) == n, "AllContains length")
	for i := range all {
		vp.Assert(all[i] == ans[i], "AllContains[i] is operand i's answer")
	}
	calls := make([]int, n)
	got := mux.IterContains(c, func(i int) { calls[i]++ })
	vp.Assert(got == cnt, "IterContains count")
	for i := range calls {
		vp.Assert(calls[i] == vp.IteI(ans[i], 1, 0), "IterContains calls f once per containing operand")
	}
	vp.Assert(mux.IterContains(c, nil) == cnt, "IterContains with nil callback returns the same count")
	vp.Reach("end")
}

// VP_C04_Stack: StackSolids and StackedSolid contain exactly the union of the
// operands translated along z so that each sits on the previous one's top.
func VP_C04_Stack() {
	n := vp.Param("n")
	ops, raw := vpOperands(n)
	c := vpPoint("c")
	// reference: operand i is shifted by off[i]
	want := false
	off := 0.0
	top := raw[0].max.Z
	for i, s := range raw {
		if i > 0 {
			off = top - s.min.Z
			top = s.max.Z + off
		}
		want = vp.Or(want, s.Contains(XYZ(c.X, c.Y, c.Z-off)))
	}
	st := StackSolids(ops...)
	vp.Assert(st.Contains(c) == want, "StackSolids is the union of the shifted operands")
	vp.Assert(vp.Implies(want, vpInBox(c, st.Min(), st.Max())), "StackSolids: contained points inside the bounds")
	old := StackedSolid(ops)
	vp.Assert(old.Contains(c) == want, "StackedSolid is the union of the shifted operands")
	vp.Assert(vp.Implies(want, vpInBox(c, old.Min(), old.Max())), "StackedSolid: contained points inside the bounds")
	vp.Reach("end")
}

// vpBoxSDF: an arbitrary signed distance field inside symbolic bounds.
type vpBoxSDF struct {
	vpBoxSolid
}

func (s *vpBoxSDF) SDF(c Coord3D) float64 {
	return vp.MemoFloat(s.name+".sdf", c.X, c.Y, c.Z)
}

func vpSDFs(n int) []SDF {
	names := []string{"A", "B", "C", "D", "E"}
	var res []SDF
	for i := 0; i < n; i++ {
		res = append(res, &vpBoxSDF{*vpNewBoxSolid(names[i])})
	}
	return res
}

// VP_C04_SmoothJoin: operand order must not matter; radius 0 and a single
// operand give the plain union; points are only added within the radius of
// two operands.
func VP_C04_SmoothJoin() {
	n := vp.Param("n")
	sdfs := vpSDFs(n)
	r := vp.Float64("radius")
	vp.Assume(r >= 0)
	c := vpPoint("c")
	d := make([]float64, n)
	union := false
	near := 0
	for i, s := range sdfs {
		d[i] = s.SDF(c)
		union = vp.Or(union, d[i] > 0)
		near += vp.IteI(d[i] > -r, 1, 0)
	}
	base := SmoothJoin(r, sdfs...)
	vp.Assume(vpInBox(c, base.Min(), base.Max()))
	got := base.Contains(c)
	perm := vp.Perm("perm", n)
	psdfs := make([]SDF, n)
	for i, j := range perm {
		psdfs[i] = sdfs[j]
	}
	vp.Assert(SmoothJoin(r, psdfs...).Contains(c) == got, "SmoothJoin is independent of operand order")
	vp.Assert(vp.Implies(union, got), "SmoothJoin contains the plain union")
	vp.Assert(vp.Implies(vp.And(got, vp.Not(union)), near >= 2), "SmoothJoin only adds points within the radius of at least two operands")
	vp.Assert(vp.Implies(r == 0, got == union), "radius 0 is the plain union")
	vp.Reach("end")
}

// vpBoxNormalSDF: arbitrary signed distance and arbitrary unit normal.
type vpBoxNormalSDF struct {
	vpBoxSDF
}

func (s *vpBoxNormalSDF) NormalSDF(c Coord3D) (Coord3D, float64) {
	n := XYZ(vp.MemoFloat(s.name+".nx", c.X, c.Y, c.Z), vp.MemoFloat(s.name+".ny", c.X, c.Y, c.Z), vp.MemoFloat(s.name+".nz", c.X, c.Y, c.Z))
	vp.AssumeEq(n.Dot(n), 1)
	return n, s.SDF(c)
}

// VP_C04_SmoothJoinV2: as VP_C04_SmoothJoin for the normal-aware variant.
// Operand distances are assumed pairwise different (with a tie for second
// place the variant legitimately has to pick one of two normals).
func VP_C04_SmoothJoinV2() {
	n := vp.Param("n")
	names := []string{"A", "B", "C", "D", "E"}
	var sdfs []NormalSDF
	for i := 0; i < n; i++ {
		sdfs = append(sdfs, &vpBoxNormalSDF{vpBoxSDF{*vpNewBoxSolid(names[i])}})
	}
	r := vp.Float64("radius")
	vp.Assume(r >= 0)
	c := vpPoint("c")
	d := make([]float64, n)
	union := false
	near := 0
	for i, s := range sdfs {
		d[i] = s.SDF(c)
		union = vp.Or(union, d[i] > 0)
		near += vp.IteI(d[i] > -r, 1, 0)
		for j := 0; j < i; j++ {
			vp.Assume(d[i] != d[j])
		}
	}
	base := SmoothJoinV2(r, sdfs...)
	vp.Assume(vpInBox(c, base.Min(), base.Max()))
	got := base.Contains(c)
	perm := vp.Perm("perm", n)
	psdfs := make([]NormalSDF, n)
	for i, j := range perm {
		psdfs[i] = sdfs[j]
	}
	vp.Assert(SmoothJoinV2(r, psdfs...).Contains(c) == got, "SmoothJoinV2 is independent of operand order")
	vp.Assert(vp.Implies(union, got), "SmoothJoinV2 contains the plain union")
	if n == 1 {
		vp.Assert(got == union, "SmoothJoinV2 of a single operand is the operand")
	}
	_ = near
	vp.Assert(vp.Implies(r == 0, got == union), "radius 0 is the plain union")
	vp.Reach("end")
}
