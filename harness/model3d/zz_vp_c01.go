//go:build verif

package model3d

import (
	"github.com/unixpickle/model3d/internal/vp"
)

// C01/C02 — marching cubes: local watertightness obligations decided over the
// real 256-entry table (computed by the real mcLookupTable inside the engine).

const vpMaxTris = 5

// vpFlatTable flattens the real lookup table so that a row can be selected
// by a symbolic index.
func vpFlatTable() (lens [256]int, flat [256][vpMaxTris]mcTriangle) {
	table := mcLookupTable()
	for i, row := range table {
		if len(row) > vpMaxTris {
			panic("vp: table row longer than expected")
		}
		lens[i] = len(row)
		copy(flat[i][:], row)
	}
	return
}

type vpRow struct {
	n   int
	tri [vpMaxTris]mcTriangle
}

func vpSelectRow(lens *[256]int, flat *[256][vpMaxTris]mcTriangle, bits mcIntersections) vpRow {
	return vpRow{n: lens[bits], tri: flat[bits]}
}

// vpVertexID: a mesh vertex is the midpoint of the cube edge (a,b); id = lo*8+hi.
func vpVertexID(a, b mcCorner) uint8 {
	lo := vp.IteU8(a < b, uint8(a), uint8(b))
	hi := vp.IteU8(a < b, uint8(b), uint8(a))
	return lo*8 + hi
}

func vpInside(bits mcIntersections, c mcCorner) bool {
	return (bits>>c)&1 == 1
}

// vpIsCubeEdge: corners differ in exactly one coordinate bit.
func vpIsCubeEdge(a, b mcCorner) bool {
	d := a ^ b
	return vp.Or(d == 1, vp.Or(d == 2, d == 4))
}

// vpOnCommonFace: the four corners share some coordinate value.
func vpOnCommonFace(a, b, c, d mcCorner) bool {
	and := a & b & c & d
	or := a | b | c | d
	// a common 1-bit, or a common 0-bit
	return vp.Or(and&7 != 0, or&7 != 7)
}

func vpB2I(b bool) uint8 { return vp.IteU8(b, 1, 0) }

// VP_C01_MCCell: per-cell obligations (a) vertices on sign-changing edges and
// every such edge used, (b) interior edges paired with their reverse exactly
// once, no directed edge twice.
func VP_C01_MCCell() {
	lens, flat := vpFlatTable()
	bits := mcIntersections(vp.Uint8("bits"))
	row := vpSelectRow(&lens, &flat, bits)
	vp.Assert(vp.And(row.n >= 0, row.n <= vpMaxTris), "row length in range")

	// (a) every triangle vertex is the midpoint of a sign-changing cube edge
	for k := 0; k < vpMaxTris; k++ {
		live := k < row.n
		t := row.tri[k]
		for i := 0; i < 3; i++ {
			a, b := t[2*i], t[2*i+1]
			ok := vp.All(a < 8, b < 8, vpIsCubeEdge(a, b), vpInside(bits, a) != vpInside(bits, b))
			vp.Assert(vp.Implies(live, ok), "vertex on a sign-changing cube edge")
		}
		// three distinct vertices
		v0, v1, v2 := vpVertexID(t[0], t[1]), vpVertexID(t[2], t[3]), vpVertexID(t[4], t[5])
		vp.Assert(vp.Implies(live, vp.All(v0 != v1, v1 != v2, v0 != v2)), "triangle has three distinct vertices")
	}

	// (a') every sign-changing cube edge carries a vertex
	for a := mcCorner(0); a < 8; a++ {
		for _, bit := range []mcCorner{1, 2, 4} {
			b := a ^ bit
			if b < a {
				continue
			}
			id := uint8(a)*8 + uint8(b)
			used := false
			for k := 0; k < vpMaxTris; k++ {
				t := row.tri[k]
				for i := 0; i < 3; i++ {
					used = vp.Or(used, vp.And(k < row.n, vpVertexID(t[2*i], t[2*i+1]) == id))
				}
			}
			changing := vpInside(bits, a) != vpInside(bits, b)
			vp.Assert(used == changing, "a cube edge carries a vertex iff its ends differ")
		}
	}

	// (b) directed edges
	for k := 0; k < vpMaxTris; k++ {
		t := row.tri[k]
		for i := 0; i < 3; i++ {
			j := (i + 1) % 3
			p, q := vpVertexID(t[2*i], t[2*i+1]), vpVertexID(t[2*j], t[2*j+1])
			onFace := vpOnCommonFace(t[2*i], t[2*i+1], t[2*j], t[2*j+1])
			same, rev := uint8(0), uint8(0)
			for k2 := 0; k2 < vpMaxTris; k2++ {
				t2 := row.tri[k2]
				for i2 := 0; i2 < 3; i2++ {
					j2 := (i2 + 1) % 3
					p2, q2 := vpVertexID(t2[2*i2], t2[2*i2+1]), vpVertexID(t2[2*j2], t2[2*j2+1])
					live2 := k2 < row.n
					same += vpB2I(vp.All(live2, p2 == p, q2 == q))
					rev += vpB2I(vp.All(live2, p2 == q, q2 == p))
				}
			}
			live := k < row.n
			vp.Assert(vp.Implies(live, same == 1), "no directed edge occurs twice in a cell")
			vp.Assert(vp.Implies(vp.And(live, vp.Not(onFace)), rev == 1), "interior edge has exactly one reverse twin")
			vp.Assert(vp.Implies(vp.And(live, onFace), rev == 0), "face edge has no twin inside the same cell")
		}
	}
	vp.Reach("end")
}

// vpCornerPos2: doubled integer coordinates of a vertex on cube edge (a,b).
func vpCornerPos2(a, b mcCorner) (x, y, z int8) {
	x = int8(a&1) + int8(b&1)
	y = int8((a>>1)&1) + int8((b>>1)&1)
	z = int8((a>>2)&1) + int8((b>>2)&1)
	return
}

// VP_C01_MCOrient: for every triangle of every row the normal (right-hand rule
// on the real corner->coordinate mapping) points from contained corners to
// excluded corners: summed over its three vertices, normal . (outside-inside) > 0.
func VP_C01_MCOrient() {
	lens, flat := vpFlatTable()
	bits := mcIntersections(vp.Uint8("bits"))
	row := vpSelectRow(&lens, &flat, bits)
	for k := 0; k < vpMaxTris; k++ {
		t := row.tri[k]
		x0, y0, z0 := vpCornerPos2(t[0], t[1])
		x1, y1, z1 := vpCornerPos2(t[2], t[3])
		x2, y2, z2 := vpCornerPos2(t[4], t[5])
		ux, uy, uz := x1-x0, y1-y0, z1-z0
		wx, wy, wz := x2-x0, y2-y0, z2-z0
		nx, ny, nz := uy*wz-uz*wy, uz*wx-ux*wz, ux*wy-uy*wx
		total := int8(0)
		for i := 0; i < 3; i++ {
			a, b := t[2*i], t[2*i+1]
			// direction from the inside corner to the outside corner
			aIn := vpInside(bits, a)
			in := mcCorner(vp.IteU8(aIn, uint8(a), uint8(b)))
			out := mcCorner(vp.IteU8(aIn, uint8(b), uint8(a)))
			dx := int8(out&1) - int8(in&1)
			dy := int8((out>>1)&1) - int8((in>>1)&1)
			dz := int8((out>>2)&1) - int8((in>>2)&1)
			dot := nx*dx + ny*dy + nz*dz
			total += dot
		}
		vp.Assert(vp.Implies(k < row.n, total > 0), "normal points from contained to excluded side")
	}
	vp.Reach("end")
}
