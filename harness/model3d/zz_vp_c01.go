//go:build verif

package model3d

import (
	"github.com/unixpickle/model3d/internal/vp"
)

// C01/C02 — marching cubes: local watertightness obligations decided over the
// real 256-entry table (computed by the real mcLookupTable inside the engine).

const vpMaxTris = 5

// vpFlatTable flattens the real lookup table so that a row can be selected
// by a symbolic index.
func vpFlatTable() (lens [256]int, flat [256][vpMaxTris]mcTriangle) {
	table := mcLookupTable()
	for i, row := range table {
		if len(row) > vpMaxTris {
			panic("vp: table row longer than expected")
		}
		lens[i] = len(row)
		copy(flat[i][:], row)
	}
	return
}

type vpRow struct {
	n   int
	tri [vpMaxTris]mcTriangle
}

func vpSelectRow(lens *[256]int, flat *[256][vpMaxTris]mcTriangle, bits mcIntersections) vpRow {
	return vpRow{n: lens[bits], tri: flat[bits]}
}

// vpVertexID: a mesh vertex is the midpoint of the cube edge (a,b); id = lo*8+hi.
func vpVertexID(a, b mcCorner) uint8 {
	lo := vp.IteU8(a < b, uint8(a), uint8(b))
	hi := vp.IteU8(a < b, uint8(b), uint8(a))
	return lo*8 + hi
}

func vpInside(bits mcIntersections, c mcCorner) bool {
	return (bits>>c)&1 == 1
}

// vpIsCubeEdge: corners differ in exactly one coordinate bit.
func vpIsCubeEdge(a, b mcCorner) bool {
	d := a ^ b
	return vp.Or(d == 1, vp.Or(d == 2, d == 4))
}

// vpOnCommonFace: the four corners share some coordinate value.
func vpOnCommonFace(a, b, c, d mcCorner) bool {
	and := a & b & c & d
	or := a | b | c | d
	// a common 1-bit, or a common 0-bit
	return vp.Or(and&7 != 0, or&7 != 7)
}

func vpB2I(b bool) uint8 { return vp.IteU8(b, 1, 0) }

// VP_C01_MCCell: per-cell obligations (a) vertices on sign-changing edges and
// every such edge used, (b) interior edges paired with their reverse exactly
// once, no directed edge twice.
func VP_C01_MCCell() {
	lens, flat := vpFlatTable()
	bits := mcIntersections(vp.Uint8("bits"))
	row := vpSelectRow(&lens, &flat, bits)
	vp.Assert(vp.And(row.n >= 0, row.n <= vpMaxTris), "row length in range")

	// (a) every triangle vertex is the midpoint of a sign-changing cube edge
	for k := 0; k < vpMaxTris; k++ {
		live := k < row.n
		t := row.tri[k]
		for i := 0; i < 3; i++ {
			a, b := t[2*i], t[2*i+1]
			ok := vp.All(a < 8, b < 8, vpIsCubeEdge(a, b), vpInside(bits, a) != vpInside(bits, b))
			vp.Assert(vp.Implies(live, ok), "vertex on a sign-changing cube edge")
		}
		// three distinct vertices
		v0, v1, v2 := vpVertexID(t[0], t[1]), vpVertexID(t[2], t[3]), vpVertexID(t[4], t[5])
		vp.Assert(vp.Implies(live, vp.All(v0 != v1, v1 != v2, v0 != v2)), "triangle has three distinct vertices")
	}

	// (a') every sign-changing cube edge carries a vertex
	for a := mcCorner(0); a < 8; a++ {
		for _, bit := range []mcCorner{1, 2, 4} {
			b := a ^ bit
			if b < a {
				continue
			}
			id := uint8(a)*8 + uint8(b)
			used := false
			for k := 0; k < vpMaxTris; k++ {
				t := row.tri[k]
				for i := 0; i < 3; i++ {
					used = vp.Or(used, vp.And(k < row.n, vpVertexID(t[2*i], t[2*i+1]) == id))
				}
			}
			changing := vpInside(bits, a) != vpInside(bits, b)
			vp.Assert(used == changing, "a cube edge carries a vertex iff its ends differ")
		}
	}

	// (b) directed edges
	for k := 0; k < vpMaxTris; k++ {
		t := row.tri[k]
		for i := 0; i < 3; i++ {
			j := (i + 1) % 3
			p, q := vpVertexID(t[2*i], t[2*i+1]), vpVertexID(t[2*j], t[2*j+1])
			onFace := vpOnCommonFace(t[2*i], t[2*i+1], t[2*j], t[2*j+1])
			same, rev := uint8(0), uint8(0)
			for k2 := 0; k2 < vpMaxTris; k2++ {
				t2 := row.tri[k2]
				for i2 := 0; i2 < 3; i2++ {
					j2 := (i2 + 1) % 3
					p2, q2 := vpVertexID(t2[2*i2], t2[2*i2+1]), vpVertexID(t2[2*j2], t2[2*j2+1])
					live2 := k2 < row.n
					same += vpB2I(vp.All(live2, p2 == p, q2 == q))
					rev += vpB2I(vp.All(live2, p2 == q, q2 == p))
				}
			}
			live := k < row.n
			vp.Assert(vp.Implies(live, same == 1), "no directed edge occurs twice in a cell")
			vp.Assert(vp.Implies(vp.And(live, vp.Not(onFace)), rev == 1), "interior edge has exactly one reverse twin")
			vp.Assert(vp.Implies(vp.And(live, onFace), rev == 0), "face edge has no twin inside the same cell")
		}
	}
	vp.Reach("end")
}

// vpCornerPos2: doubled integer coordinates of a vertex on cube edge (a,b).
func vpCornerPos2(a, b mcCorner) (x, y, z int8) {
	x = int8(a&1) + int8(b&1)
	y = int8((a>>1)&1) + int8((b>>1)&1)
	z = int8((a>>2)&1) + int8((b>>2)&1)
	return
}

// VP_C01_MCOrient: for every triangle of every row the normal (right-hand rule
// on the real corner->coordinate mapping) points from contained corners to
// excluded corners: summed over its three vertices, normal . (outside-inside) > 0.
func VP_C01_MCOrient() {
	lens, flat := vpFlatTable()
	bits := mcIntersections(vp.Uint8("bits"))
	row := vpSelectRow(&lens, &flat, bits)
	for k := 0; k < vpMaxTris; k++ {
		t := row.tri[k]
		x0, y0, z0 := vpCornerPos2(t[0], t[1])
		x1, y1, z1 := vpCornerPos2(t[2], t[3])
		x2, y2, z2 := vpCornerPos2(t[4], t[5])
		ux, uy, uz := x1-x0, y1-y0, z1-z0
		wx, wy, wz := x2-x0, y2-y0, z2-z0
		nx, ny, nz := uy*wz-uz*wy, uz*wx-ux*wz, ux*wy-uy*wx
		total := int8(0)
		for i := 0; i < 3; i++ {
			a, b := t[2*i], t[2*i+1]
			// direction from the inside corner to the outside corner
			aIn := vpInside(bits, a)
			in := mcCorner(vp.IteU8(aIn, uint8(a), uint8(b)))
			out := mcCorner(vp.IteU8(aIn, uint8(b), uint8(a)))
			dx := int8(out&1) - int8(in&1)
			dy := int8((out>>1)&1) - int8((in>>1)&1)
			dz := int8((out>>2)&1) - int8((in>>2)&1)
			dot := nx*dx + ny*dy + nz*dz
			total += dot
		}
		vp.Assert(vp.Implies(k < row.n, total > 0), "normal points from contained to excluded side")
	}
	vp.Reach("end")
}

// vpLattice builds a squareSpacer with the given point counts and one
// solidCache per z slab whose inside/outside values are symbolic.
func vpLattice(nx, ny, nz int) (*squareSpacer, []*solidCache) {
	sp := &squareSpacer{Xs: make([]float64, nx), Ys: make([]float64, ny), Zs: make([]float64, nz)}
	for i := range sp.Xs {
		sp.Xs[i] = float64(i)
	}
	for i := range sp.Ys {
		sp.Ys[i] = float64(i)
	}
	for i := range sp.Zs {
		sp.Zs[i] = float64(i)
	}
	caches := make([]*solidCache, nz)
	for z := range caches {
		c := newSolidCache(nil, sp)
		for i := range c.values {
			c.values[i] = vp.Bool("inside")
		}
		caches[z] = c
	}
	return sp, caches
}

// vpTwoCubes returns the corner bits of two cubes adjacent along axis,
// assembled exactly as MarchingCubes does (bottom | top<<4 via GetSquare).
func vpTwoCubes(axis int) (b1, b2 mcIntersections, sp *squareSpacer, caches []*solidCache) {
	dims := [3]int{2, 2, 2}
	dims[axis] = 3
	sp, caches = vpLattice(dims[0], dims[1], dims[2])
	switch axis {
	case 0:
		b1 = caches[0].GetSquare(0, 0) | (caches[1].GetSquare(0, 0) << 4)
		b2 = caches[0].GetSquare(1, 0) | (caches[1].GetSquare(1, 0) << 4)
	case 1:
		b1 = caches[0].GetSquare(0, 0) | (caches[1].GetSquare(0, 0) << 4)
		b2 = caches[0].GetSquare(0, 1) | (caches[1].GetSquare(0, 1) << 4)
	default:
		b1 = caches[0].GetSquare(0, 0) | (caches[1].GetSquare(0, 0) << 4)
		b2 = caches[1].GetSquare(0, 0) | (caches[2].GetSquare(0, 0) << 4)
	}
	return
}

// VP_C01_MCFace: two cells sharing a face leave exactly reversed directed
// segments on it, for every assignment of the 12 lattice points (param axis).
func VP_C01_MCFace() {
	axis := vp.Param("axis")
	lens, flat := vpFlatTable()
	b1, b2, _, _ := vpTwoCubes(axis)
	r1 := vpSelectRow(&lens, &flat, b1)
	r2 := vpSelectRow(&lens, &flat, b2)
	m := mcCorner(1) << uint(axis)

	onFace := func(t mcTriangle, i, j int, want mcCorner) bool {
		a, b, c, d := t[2*i], t[2*i+1], t[2*j], t[2*j+1]
		return vp.All(a&m == want, b&m == want, c&m == want, d&m == want)
	}
	// every face edge of cell 1 has exactly one reversed partner in cell 2
	check := func(ra, rb vpRow, wantA, wantB mcCorner, label string) {
		for k := 0; k < vpMaxTris; k++ {
			t := ra.tri[k]
			for i := 0; i < 3; i++ {
				j := (i + 1) % 3
				isFace := vp.And(k < ra.n, onFace(t, i, j, wantA))
				p := vpVertexID(t[2*i]^m, t[2*i+1]^m)
				q := vpVertexID(t[2*j]^m, t[2*j+1]^m)
				rev := uint8(0)
				for k2 := 0; k2 < vpMaxTris; k2++ {
					t2 := rb.tri[k2]
					for i2 := 0; i2 < 3; i2++ {
						j2 := (i2 + 1) % 3
						p2 := vpVertexID(t2[2*i2], t2[2*i2+1])
						q2 := vpVertexID(t2[2*j2], t2[2*j2+1])
						rev += vpB2I(vp.All(k2 < rb.n, onFace(t2, i2, j2, wantB), p2 == q, q2 == p))
					}
				}
				vp.Assert(vp.Implies(isFace, rev == 1), label)
			}
		}
	}
	check(r1, r2, m, 0, "face segment of the first cell has one reversed twin in the second")
	check(r2, r1, 0, m, "face segment of the second cell has one reversed twin in the first")
	vp.Reach("end")
}

// VP_C12_CubeBits: the filtered/blocked path (mcBlockCache.GetCube) reads the
// same 8 corner bits as the slab path (solidCache.GetSquare pair) for the same
// lattice values, for every cell of a small lattice.
func VP_C12_CubeBits() {
	nx, ny, nz := vp.Param("nx"), vp.Param("ny"), vp.Param("nz")
	sp, caches := vpLattice(nx, ny, nz)
	block := newMcBlock(sp)
	bc := newMcBlockCache()
	bc.block = &block
	for z := 0; z < nz; z++ {
		for y := 0; y < ny; y++ {
			for x := 0; x < nx; x++ {
				bc.values = append(bc.values, caches[z].Get(x, y))
			}
		}
	}
	for z := 0; z < nz-1; z++ {
		for y := 0; y < ny-1; y++ {
			for x := 0; x < nx-1; x++ {
				slab := caches[z].GetSquare(x, y) | (caches[z+1].GetSquare(x, y) << 4)
				vp.Assert(bc.GetCube(x, y, z) == slab, "block cache and slab cache agree on the corner bits")
			}
		}
	}
	vp.Reach("end")
}

// vpMeshClosedOriented: the three library diagnostics plus a harness-side
// directed-edge count (every directed edge once, its reverse once).
func vpMeshClosedOriented(m *Mesh) bool {
	if m.NeedsRepair() || len(m.SingularVertices()) != 0 || len(m.InconsistentEdges()) != 0 {
		return false
	}
	type dedge struct{ a, b Coord3D }
	cnt := map[dedge]int{}
	m.Iterate(func(t *Triangle) {
		for i := 0; i < 3; i++ {
			cnt[dedge{t[i], t[(i+1)%3]}]++
		}
	})
	for e, n := range cnt {
		if n != 1 || cnt[dedge{e.b, e.a}] != 1 {
			return false
		}
	}
	return true
}

// VP_C01_Rect: NewMeshRect(min,max) for symbolic min<max is a closed oriented
// manifold with outward normals (positive volume).
func VP_C01_Rect() {
	min := XYZ(vp.Float64("minx"), vp.Float64("miny"), vp.Float64("minz"))
	max := XYZ(vp.Float64("maxx"), vp.Float64("maxy"), vp.Float64("maxz"))
	vp.Assume(vp.All(min.X < max.X, min.Y < max.Y, min.Z < max.Z))
	m := NewMeshRect(min, max)
	vp.Assert(len(m.TriangleSlice()) == 12, "12 triangles")
	vp.Assert(vpMeshClosedOriented(m), "closed oriented manifold")
	// orientation: each face's normal component along its constant axis has the outward sign
	ok := true
	m.Iterate(func(t *Triangle) {
		for axis := 0; axis < 3; axis++ {
			a0, a1, a2 := t[0].Array()[axis], t[1].Array()[axis], t[2].Array()[axis]
			if a0 == a1 && a1 == a2 {
				// face on a constant-axis plane: cross product sign
				u := t[1].Sub(t[0])
				v := t[2].Sub(t[0])
				var cross float64
				switch axis {
				case 0:
					cross = vpSign(u.Y)*vpSign(v.Z) - vpSign(u.Z)*vpSign(v.Y)
				case 1:
					cross = vpSign(u.Z)*vpSign(v.X) - vpSign(u.X)*vpSign(v.Z)
				default:
					cross = vpSign(u.X)*vpSign(v.Y) - vpSign(u.Y)*vpSign(v.X)
				}
				onMax := a0 == max.Array()[axis]
				if onMax && !(cross > 0) || !onMax && !(cross < 0) {
					ok = false
				}
			}
		}
	})
	vp.Assert(ok, "normals point outward")
	vp.Reach("end")
}

func vpSign(x float64) float64 {
	if x > 0 {
		return 1
	} else if x < 0 {
		return -1
	}
	return 0
}

// vpLatticeSolid: a solid seen only through a lattice; interior lattice points
// get symbolic membership, the outer layer is empty.
type vpLatticeSolid struct {
	nx, ny, nz int
	vals       []bool
}

func (l *vpLatticeSolid) Min() Coord3D { return XYZ(0, 0, 0) }
func (l *vpLatticeSolid) Max() Coord3D { return XYZ(float64(l.nx-1), float64(l.ny-1), float64(l.nz-1)) }
func (l *vpLatticeSolid) Contains(c Coord3D) bool {
	// lattice points are at integer coordinates -1..n (delta = 1)
	x, y, z := int(c.X+1), int(c.Y+1), int(c.Z+1)
	if x <= 0 || y <= 0 || z <= 0 || x > l.nx || y > l.ny || z > l.nz {
		return false
	}
	return l.vals[(x-1)+(y-1)*l.nx+(z-1)*l.nx*l.ny]
}

// VP_C01_E2E: the real MarchingCubes and MarchingCubesFilter drivers end to
// end on a lattice solid with nx*ny*nz symbolic interior points.
func VP_C01_E2E() {
	nx, ny, nz := vp.Param("nx"), vp.Param("ny"), vp.Param("nz")
	l := &vpLatticeSolid{nx: nx, ny: ny, nz: nz, vals: make([]bool, nx*ny*nz)}
	for i := range l.vals {
		l.vals[i] = vp.Bool("inside")
	}
	m := MarchingCubes(l, 1)
	vp.Assert(vpMeshClosedOriented(m), "MarchingCubes: closed oriented manifold")
	any := false
	for _, v := range l.vals {
		any = any || v
	}
	if any {
		vp.Assert(m.Volume() > 0, "MarchingCubes: positive enclosed volume (outward normals)")
	} else {
		vp.Assert(len(m.TriangleSlice()) == 0, "empty solid gives empty mesh")
	}
	// C02: every lattice point is on the side the solid says (even-odd along +x from the point)
	// C12: the filtered/blocked driver gives the same set of faces
	m2 := MarchingCubesFilter(l, func(*Rect) bool { return true }, 1)
	vp.Assert(vpSameFaces(m, m2), "MarchingCubesFilter(true) yields the same faces")
	vp.Reach("end")
}

func vpSameFaces(a, b *Mesh) bool {
	if len(a.TriangleSlice()) != len(b.TriangleSlice()) {
		return false
	}
	cnt := map[Triangle]int{}
	a.Iterate(func(t *Triangle) { cnt[*t]++ })
	ok := true
	b.Iterate(func(t *Triangle) {
		if cnt[*t] == 0 {
			ok = false
		}
		cnt[*t]--
	})
	return ok
}

// vpFullLattice: like vpLatticeSolid, but the outer lattice layer (the points
// one spacing outside the declared bounds) has symbolic membership too, i.e.
// the declared bounds may be too small.
type vpFullLattice struct {
	nx, ny, nz int // interior counts; the lattice has (n+2) points per axis
	vals       []bool
}

func (l *vpFullLattice) Min() Coord3D { return XYZ(0, 0, 0) }
func (l *vpFullLattice) Max() Coord3D { return XYZ(float64(l.nx-1), float64(l.ny-1), float64(l.nz-1)) }
func (l *vpFullLattice) Contains(c Coord3D) bool {
	x, y, z := int(c.X+1), int(c.Y+1), int(c.Z+1)
	return l.vals[x+y*(l.nx+2)+z*(l.nx+2)*(l.ny+2)]
}

func vpPanics(f func()) (p bool) {
	defer func() {
		if recover() != nil {
			p = true
		}
	}()
	f()
	return false
}

// VP_C01_Refusal: the slab cache (MarchingCubes) and the block cache
// (MarchingCubesFilter) refuse - panic - exactly when the solid is true on
// some point of the outer lattice layer, whichever of the six sides it is on.
func VP_C01_Refusal() {
	nx, ny, nz := vp.Param("nx"), vp.Param("ny"), vp.Param("nz")
	l := &vpFullLattice{nx: nx, ny: ny, nz: nz, vals: make([]bool, (nx+2)*(ny+2)*(nz+2))}
	outer := false
	idx := 0
	for z := 0; z < nz+2; z++ {
		for y := 0; y < ny+2; y++ {
			for x := 0; x < nx+2; x++ {
				l.vals[idx] = vp.Bool("inside")
				if x == 0 || y == 0 || z == 0 || x == nx+1 || y == ny+1 || z == nz+1 {
					outer = vp.Or(outer, l.vals[idx])
				}
				idx++
			}
		}
	}
	spacer := newSquareSpacer(l, 1)
	vp.Assert(len(spacer.Xs) == nx+2 && len(spacer.Ys) == ny+2 && len(spacer.Zs) == nz+2, "lattice has one layer outside the bounds on each side")
	slab := vpPanics(func() {
		c := newSolidCache(l, spacer)
		for z := range spacer.Zs {
			c.FetchZ(z)
		}
	})
	vp.Assert(slab == outer, "slab cache refuses exactly the solids that are true on the outer lattice layer")
	block := vpPanics(func() {
		root := newMcBlock(spacer)
		newMcBlockCache().Populate(&root, l)
	})
	vp.Assert(block == outer, "block cache refuses exactly the solids that are true on the outer lattice layer")
	vp.Reach("end")
}

// vpEdgeManifoldSym: every directed edge of the mesh occurs exactly once and
// its reverse exactly once, decided on symbolic coordinates without going
// through the coordinate hash maps (no branching: one formula per mesh).
func vpEdgeManifoldSym(m *Mesh) bool {
	type dedge struct{ a, b Coord3D }
	var es []dedge
	for _, t := range m.TriangleSlice() {
		for i := 0; i < 3; i++ {
			es = append(es, dedge{t[i], t[(i+1)%3]})
		}
	}
	eq := func(p, q Coord3D) bool { return vp.All(p.X == q.X, p.Y == q.Y, p.Z == q.Z) }
	ok := true
	for i, e := range es {
		var same, rev uint8
		for j, f := range es {
			if i != j {
				same += vp.IteU8(vp.And(eq(e.a, f.a), eq(e.b, f.b)), 1, 0)
			}
			rev += vp.IteU8(vp.And(eq(e.a, f.b), eq(e.b, f.a)), 1, 0)
		}
		ok = vp.All(ok, same == 0, rev == 1, !eq(e.a, e.b))
	}
	return ok
}

// VP_C01_Torus / Cone / Cylinder: the parametric generators for a symbolic
// centre and symbolic radii (exact arithmetic: the seam vertices have to
// coincide because they are computed from the same wrapped index, not by
// rounding luck) and the stop counts given by the parameters: every directed
// edge is matched by exactly one reverse edge, no edge is degenerate, and the
// triangle count is the expected one.
func VP_C01_Torus() {
	is, os := vp.Param("inner"), vp.Param("outer")
	center := XYZ(vp.Float64("cx"), vp.Float64("cy"), vp.Float64("cz"))
	ri, ro := vp.Float64("innerRadius"), vp.Float64("outerRadius")
	vp.Assume(vp.All(ri > 0, ri < ro))
	axes := []Coord3D{X(1), Z(1), XYZ(1, 2, 3), XYZ(-2, 0.5, 0)}
	axis := axes[vp.Choice("axis", len(axes))]
	m := NewMeshTorus(center, axis, ri, ro, is, os)
	vp.Assert(len(m.TriangleSlice()) == 2*is*os, "two triangles per quad")
	vp.Assert(vpEdgeManifoldSym(m), "NewMeshTorus: closed oriented manifold (every edge matched by one reverse edge)")
	vp.Reach("end")
}

func VP_C01_ConeCyl() {
	n := vp.Param("stops")
	base := XYZ(vp.Float64("cx"), vp.Float64("cy"), vp.Float64("cz"))
	r := vp.Float64("radius")
	vp.Assume(r > 0)
	dirs := []Coord3D{X(1), Z(2), XYZ(1, 2, 3), XYZ(-2, 0.5, 0)}
	d := dirs[vp.Choice("axis", len(dirs))]
	if vp.Param("cone") == 1 {
		m := NewMeshCone(base.Add(d), base, r, n)
		vp.Assert(vpEdgeManifoldSym(m), "NewMeshCone: closed oriented manifold")
	} else {
		m := NewMeshCylinder(base, base.Add(d), r, n)
		vp.Assert(vpEdgeManifoldSym(m), "NewMeshCylinder: closed oriented manifold")
	}
	vp.Reach("end")
}
