//go:build verif

package model3d

import (
	"math"

	"github.com/unixpickle/model3d/internal/vp"
)

// C05 — transforms invert; transformed objects are images of the original.
// float_mode=real.

// vpTransformKinds lists the transform kinds by the "kind" parameter.
//
//	0 Translate            1 Scale (s > 0)         2 VecScale (each != 0, any sign)
//	3 Matrix3Transform (det != 0)                  4 Rotation about z, symbolic angle
//	5 Joined{Translate, Scale}                     6 Joined{Rotation(x), Translate}
//	7 Joined{VecScale, Translate}                  8 Rotation about -y
//	9 Joined{Matrix3, Translate}
// (rotation axes are axis-aligned: no other unit vector has exactly
// representable coordinates, and real mode is exact)
func vpTransform(kind int) (Transform, bool) {
	switch kind {
	case 0:
		return &Translate{Offset: vpPoint("off")}, true
	case 1:
		s := vp.Float64("scale")
		vp.Assume(s > 0)
		return &Scale{Scale: s}, true
	case 2:
		v := vpPoint("vscale")
		vp.Assume(vp.All(v.X != 0, v.Y != 0, v.Z != 0))
		return &VecScale{Scale: v}, false
	case 3:
		m := &Matrix3{}
		for i := range m {
			m[i] = vp.Float64("m")
		}
		vp.Assume(m.Det() != 0)
		return &Matrix3Transform{Matrix: m}, false
	case 4:
		return Rotation(Z(1), vp.Float64("theta")), true
	case 5:
		s := vp.Float64("scale")
		vp.Assume(s > 0)
		return JoinedTransform{&Translate{Offset: vpPoint("off")}, &Scale{Scale: s}}, true
	case 6:
		return JoinedTransform{Rotation(X(1), vp.Float64("theta")), &Translate{Offset: vpPoint("off")}}, true
	case 7:
		v := vpPoint("vscale")
		vp.Assume(vp.All(v.X != 0, v.Y != 0, v.Z != 0))
		return JoinedTransform{&VecScale{Scale: v}, &Translate{Offset: vpPoint("off")}}, false
	case 8:
		return Rotation(Y(-1), vp.Float64("theta")), true
	case 9:
		m := &Matrix3{}
		for i := range m {
			m[i] = vp.Float64("m")
		}
		vp.Assume(m.Det() != 0)
		return JoinedTransform{&Matrix3Transform{Matrix: m}, &Translate{Offset: vpPoint("off")}}, false
	case 10:
		return vpNewStubTransform("T"), true
	case 11:
		// a scaling that is not the last step
		s := vp.Float64("scale")
		vp.Assume(s > 0)
		return JoinedTransform{&Scale{Scale: s}, &Translate{Offset: vpPoint("off")}}, true
	case 12:
		s1, s2 := vp.Float64("scale1"), vp.Float64("scale2")
		vp.Assume(vp.And(s1 > 0, s2 > 0))
		return JoinedTransform{&Scale{Scale: s1}, &Translate{Offset: vpPoint("off")}, &Scale{Scale: s2}}, true
	}
	panic("bad kind")
}

// vpStubTransform is an arbitrary invertible transform: Apply is an
// uninterpreted function, constrained only on the point pairs the harness
// registers (a -> b means Apply(a) == b and Inverse().Apply(b) == a);
// ApplyBounds is an arbitrary box that encloses the registered images;
// distances change by an arbitrary positive factor.
type vpStubTransform struct {
	name  string
	inv   bool
	k     float64
	pairs *[][2]Coord3D
}

func vpNewStubTransform(name string) *vpStubTransform {
	k := vp.Float64(name + ".k")
	vp.Assume(k > 0)
	return &vpStubTransform{name: name, k: k, pairs: &[][2]Coord3D{}}
}

func (t *vpStubTransform) register(a, b Coord3D) { *t.pairs = append(*t.pairs, [2]Coord3D{a, b}) }

func (t *vpStubTransform) label() string {
	if t.inv {
		return t.name + "inv"
	}
	return t.name
}

func (t *vpStubTransform) Apply(c Coord3D) Coord3D {
	n := t.label()
	r := XYZ(vp.MemoFloat(n+".x", c.X, c.Y, c.Z), vp.MemoFloat(n+".y", c.X, c.Y, c.Z), vp.MemoFloat(n+".z", c.X, c.Y, c.Z))
	for _, pr := range *t.pairs {
		a, b := pr[0], pr[1]
		if t.inv {
			a, b = b, a
		}
		vp.Assume(vp.Implies(vpEqC(c, a), vpEqC(r, b)))
	}
	return r
}

func (t *vpStubTransform) ApplyBounds(min, max Coord3D) (Coord3D, Coord3D) {
	n := t.label() + ".bounds"
	args := []float64{min.X, min.Y, min.Z, max.X, max.Y, max.Z}
	var o [6]float64
	for i := range o {
		o[i] = vp.MemoFloat(n+string(rune('0'+i)), args...)
	}
	nmin, nmax := XYZ(o[0], o[1], o[2]), XYZ(o[3], o[4], o[5])
	vp.Assume(vp.All(nmin.X <= nmax.X, nmin.Y <= nmax.Y, nmin.Z <= nmax.Z))
	for _, pr := range *t.pairs {
		a, b := pr[0], pr[1]
		if t.inv {
			a, b = b, a
		}
		vp.Assume(vp.Implies(vpInBox(a, min, max), vpInBox(b, nmin, nmax)))
	}
	return nmin, nmax
}

func (t *vpStubTransform) Inverse() Transform {
	return &vpStubTransform{name: t.name, inv: !t.inv, k: t.k, pairs: t.pairs}
}

func (t *vpStubTransform) ApplyDistance(d float64) float64 {
	if t.inv {
		return d / t.k
	}
	return d * t.k
}

func vpEqC(a, b Coord3D) bool {
	return vp.All(a.X == b.X, a.Y == b.Y, a.Z == b.Z)
}

func vpNearC3(a, b Coord3D, label string) {
	vp.AssertNear(a.X, b.X, 1e-9, label+" (x)")
	vp.AssertNear(a.Y, b.Y, 1e-9, label+" (y)")
	vp.AssertNear(a.Z, b.Z, 1e-9, label+" (z)")
}

// VP_C05_Laws: T∘T⁻¹ = id both ways, ApplyBounds encloses the image of the
// box, ApplyDistance is the change of distance.
func VP_C05_Laws() {
	t, isDist := vpTransform(vp.Param("kind"))
	inv := t.Inverse()
	p := vpPoint("p")
	vp.Assert(vpEqC(inv.Apply(t.Apply(p)), p), "Inverse().Apply(Apply(p)) == p")
	vp.Assert(vpEqC(t.Apply(inv.Apply(p)), p), "Apply(Inverse().Apply(p)) == p")
	if k := vp.Param("kind"); k != 3 && k != 9 {
		vp.Assert(vpEqC(inv.Inverse().Apply(p), t.Apply(p)), "Inverse().Inverse() is the transform")
	}

	bmin, bmax := vpPoint("bmin"), vpPoint("bmax")
	vp.Assume(vp.All(bmin.X <= bmax.X, bmin.Y <= bmax.Y, bmin.Z <= bmax.Z))
	vp.Assume(vpInBox(p, bmin, bmax))
	nmin, nmax := t.ApplyBounds(bmin, bmax)
	vp.Assert(vp.All(nmin.X <= nmax.X, nmin.Y <= nmax.Y, nmin.Z <= nmax.Z), "ApplyBounds returns min <= max")
	q := t.Apply(p)
	vp.Assert(vp.And(q.X >= nmin.X, q.X <= nmax.X), "ApplyBounds encloses the image of every point of the box (x)")
	vp.Assert(vp.And(q.Y >= nmin.Y, q.Y <= nmax.Y), "ApplyBounds encloses the image of every point of the box (y)")
	vp.Assert(vp.And(q.Z >= nmin.Z, q.Z <= nmax.Z), "ApplyBounds encloses the image of every point of the box (z)")

	if isDist {
		dt := t.(DistTransform)
		p2 := vpPoint("p2")
		d := vp.Float64("d")
		diff := p.Sub(p2)
		vp.Assume(d >= 0)
		vp.AssumeEq(d*d, diff.Dot(diff))
		nd := dt.ApplyDistance(d)
		idiff := t.Apply(p).Sub(t.Apply(p2))
		vp.Assert(nd >= 0, "ApplyDistance of a distance is a distance")
		vp.Assert(nd*nd == idiff.Dot(idiff), "ApplyDistance(|p-q|) == |Apply(p)-Apply(q)|")
		_, ok := inv.(DistTransform)
		vp.Assert(ok, "the inverse of a DistTransform is a DistTransform")
		id := inv.(DistTransform).ApplyDistance(nd)
		vp.Assert(id == d, "the inverse's ApplyDistance undoes ApplyDistance")
	}
	vp.Reach("end")
}

// VP_C05_SolidSDFConj: TransformSolid / TransformSDF behave at T(p) as the
// wrapped object does at p.
func VP_C05_SolidSDFConj() {
	t, isDist := vpTransform(vp.Param("kind"))
	x := &vpBoxSDF{*vpNewBoxSolid("A")}
	p := vpPoint("p")
	if st, ok := t.(*vpStubTransform); ok {
		st.register(p, vpPoint("Tp"))
	}
	q := t.Apply(p)
	ts := TransformSolid(t, x)
	vp.Assert(BoundsValid(ts), "TransformSolid has valid bounds")
	in := x.Contains(p)
	vp.Assert(ts.Contains(q) == in, "TransformSolid(T,X) contains T(p) iff X contains p")
	vp.Assert(vp.Implies(in, vpInBox(q, ts.Min(), ts.Max())), "image of a contained point is inside the transformed bounds")
	if isDist {
		dt := t.(DistTransform)
		sdf := TransformSDF(dt, x)
		vp.Assert(sdf.SDF(q) == dt.ApplyDistance(x.SDF(p)), "TransformSDF(T,X).SDF(T p) == ApplyDistance(X.SDF(p))")
		vp.Assert(vp.And(vpEqC(sdf.Min(), ts.Min()), vpEqC(sdf.Max(), ts.Max())), "TransformSDF and TransformSolid report the same bounds")
	}
	vp.Reach("end")
}

// vpStubCollider: an arbitrary collider. It records the ray it was asked
// about and reports n hits (n symbolic in [0,2]) with symbolic non-negative
// scales and symbolic unit normals.
type vpStubCollider struct {
	vpBoxSolid
	rays    []Ray
	spheres [][4]float64
}

func (s *vpStubCollider) hits(r *Ray) []RayCollision {
	s.rays = append(s.rays, *r)
	n := vp.MemoInt(s.name+".nhits", r.Origin.X, r.Origin.Y, r.Origin.Z, r.Direction.X, r.Direction.Y, r.Direction.Z)
	vp.Assume(vp.And(n >= 0, n <= 2))
	n = vp.Concrete(n)
	var res []RayCollision
	last := 0.0
	for i := 0; i < n; i++ {
		sc := vp.MemoFloat(s.name+".scale", float64(i), r.Origin.X, r.Origin.Y, r.Origin.Z, r.Direction.X, r.Direction.Y, r.Direction.Z)
		vp.Assume(sc >= last)
		last = sc
		nx := vp.MemoFloat(s.name+".nx", float64(i), r.Origin.X, r.Origin.Y, r.Origin.Z, r.Direction.X, r.Direction.Y, r.Direction.Z)
		ny := vp.MemoFloat(s.name+".ny", float64(i), r.Origin.X, r.Origin.Y, r.Origin.Z, r.Direction.X, r.Direction.Y, r.Direction.Z)
		nz := vp.MemoFloat(s.name+".nz", float64(i), r.Origin.X, r.Origin.Y, r.Origin.Z, r.Direction.X, r.Direction.Y, r.Direction.Z)
		vp.AssumeEq(nx*nx+ny*ny+nz*nz, 1)
		res = append(res, RayCollision{Scale: sc, Normal: XYZ(nx, ny, nz), Extra: i})
	}
	return res
}

func (s *vpStubCollider) RayCollisions(r *Ray, f func(RayCollision)) int {
	hs := s.hits(r)
	if f != nil {
		for _, h := range hs {
			f(h)
		}
	}
	return len(hs)
}

func (s *vpStubCollider) FirstRayCollision(r *Ray) (RayCollision, bool) {
	hs := s.hits(r)
	if len(hs) == 0 {
		return RayCollision{}, false
	}
	return hs[0], true
}

func (s *vpStubCollider) SphereCollision(c Coord3D, r float64) bool {
	s.spheres = append(s.spheres, [4]float64{c.X, c.Y, c.Z, r})
	return vp.MemoBool(s.name+".sphere", c.X, c.Y, c.Z, r)
}

// VP_C05_ColliderConj: a transformed collider is hit at the images of the
// original hits, with the same ray parameter and unit image normals; the count
// does not depend on the callback; ball queries are pulled back.
func VP_C05_ColliderConj() {
	t, isDist := vpTransform(vp.Param("kind"))
	if !isDist {
		panic("collider transforms need a DistTransform")
	}
	dt := t.(DistTransform)
	inv := t.Inverse()
	x := &vpStubCollider{vpBoxSolid: *vpNewBoxSolid("A")}
	tc := TransformCollider(dt, x)

	// the inner ray we expect: the pre-image of the outer ray, same parameter
	o, d := vpPoint("o"), vpPoint("d")
	st, isStub := t.(*vpStubTransform)
	if isStub {
		st.register(o, vpPoint("To"))
		st.register(o.Add(d), vpPoint("Tod"))
	}
	outer := &Ray{Origin: t.Apply(o), Direction: t.Apply(o.Add(d)).Sub(t.Apply(o))}
	_ = inv

	var got []RayCollision
	n := tc.RayCollisions(outer, func(rc RayCollision) { got = append(got, rc) })
	vp.Assert(len(x.rays) == 1, "one inner query per outer query")
	vp.Assert(vpEqC(x.rays[0].Origin, o), "inner ray origin is the pre-image of the outer origin")
	vp.Assert(vpEqC(x.rays[0].Direction, d), "inner ray direction is the pre-image of the outer direction (linear part only)")
	inner := x.hits(&x.rays[0])
	vp.Assert(n == len(got), "count equals the number of callbacks")
	vp.Assert(n == len(inner), "as many hits as the wrapped collider reports")
	for i := range got {
		vp.Assert(got[i].Scale == inner[i].Scale, "hit keeps its ray parameter")
		// unit normal, image of the inner normal under the linear part
		nn := got[i].Normal
		vp.Assert(nn.Dot(nn) == 1, "outer normal is a unit vector")
		if !isStub {
			img := t.Apply(inner[i].Normal).Sub(t.Apply(Coord3D{}))
			// parallel and same direction: nn * |img| == img
			l := vp.Float64("imgnorm")
			vp.Assume(l >= 0)
			vp.AssumeEq(l*l, img.Dot(img))
			vp.Assert(vpEqC(nn.Scale(l), img), "outer normal is the direction of the image of the inner normal")
		}
		vp.Assert(got[i].Extra == inner[i].Extra, "Extra is passed through")
	}
	vp.Assert(tc.RayCollisions(outer, nil) == n, "same count without a callback")
	first, ok := tc.FirstRayCollision(outer)
	vp.Assert(ok == (n > 0), "FirstRayCollision reports a hit iff the count is non-zero")
	if ok {
		vp.Assert(first.Scale == inner[0].Scale, "FirstRayCollision keeps the ray parameter of the first inner hit")
	}

	c := vpPoint("c")
	r := vp.Float64("r")
	vp.Assume(r >= 0)
	if isStub {
		st.register(c, vpPoint("Tc"))
	}
	res := tc.SphereCollision(t.Apply(c), dt.ApplyDistance(r))
	vp.Assert(len(x.spheres) == 1, "one inner ball query")
	sp := x.spheres[0]
	vp.Assert(vp.All(sp[0] == c.X, sp[1] == c.Y, sp[2] == c.Z, sp[3] == r), "ball query is pulled back through the inverse")
	vp.Assert(res == x.SphereCollision(c, r), "ball answer is the wrapped collider's")

	bmin, bmax := t.ApplyBounds(x.min, x.max)
	vp.Assert(vp.And(vpEqC(tc.Min(), bmin), vpEqC(tc.Max(), bmax)), "transformed collider reports the transformed bounds")
	vp.Reach("end")
}

// vpStubMetaball: arbitrary field and arbitrary non-decreasing bound.
type vpStubMetaball struct {
	vpBoxSolid
	boundArgs []float64
}

func (s *vpStubMetaball) MetaballField(c Coord3D) float64 {
	return vp.MemoFloat(s.name+".field", c.X, c.Y, c.Z)
}

func (s *vpStubMetaball) MetaballDistBound(d float64) float64 {
	s.boundArgs = append(s.boundArgs, d)
	return vp.MemoFloat(s.name+".bound", d)
}

// VP_C05_MetaballConj: transformed metaballs evaluate the wrapped field at
// the pre-image, and their distance bound asks the wrapped bound about a
// distance that is not larger than the pre-image distance (so the bound stays
// a lower bound on the field).
func VP_C05_MetaballConj() {
	kind := vp.Param("kind")
	x := &vpStubMetaball{vpBoxSolid: *vpNewBoxSolid("A")}
	p := vpPoint("p")
	d := vp.Float64("d")
	vp.Assume(d >= 0)
	if kind == 2 {
		v := vpPoint("vscale")
		vp.Assume(vp.All(v.X != 0, v.Y != 0, v.Z != 0))
		mb := VecScaleMetaball(x, v)
		q := p.Mul(v)
		vp.Assert(mb.MetaballField(q) == x.MetaballField(p), "VecScaleMetaball field at the image equals the wrapped field")
		got := mb.MetaballDistBound(d)
		vp.Assert(len(x.boundArgs) == 1, "one inner bound query")
		a := x.boundArgs[0]
		vp.Assert(got == x.MetaballDistBound(a), "bound is the wrapped bound at the pulled-back distance")
		// any displacement whose image has length >= d has length >= a
		w := vpPoint("w")
		img := w.Mul(v)
		vp.Assert(vp.And(a >= 0, vp.Implies(img.Dot(img) >= d*d, w.Dot(w) >= a*a)), "pulled-back distance never exceeds the true pre-image distance")
		nmin, nmax := mb.Min(), mb.Max()
		vp.Assert(vp.All(nmin.X <= nmax.X, nmin.Y <= nmax.Y, nmin.Z <= nmax.Z), "VecScaleMetaball bounds valid")
		vp.Assume(vpInBox(p, x.min, x.max))
		vp.Assert(vpInBox(q, nmin, nmax), "VecScaleMetaball bounds enclose the image of the wrapped bounds")
		vp.Reach("end")
		return
	}
	t, isDist := vpTransform(kind)
	if !isDist {
		panic("metaball transforms need a DistTransform")
	}
	dt := t.(DistTransform)
	if st, ok := t.(*vpStubTransform); ok {
		st.register(p, vpPoint("Tp"))
	}
	mb := TransformMetaball(dt, x)
	q := t.Apply(p)
	vp.Assert(mb.MetaballField(q) == x.MetaballField(p), "TransformMetaball field at the image equals the wrapped field")
	nd := dt.ApplyDistance(d)
	got := mb.MetaballDistBound(nd)
	vp.Assert(len(x.boundArgs) == 1, "one inner bound query")
	vp.Assert(x.boundArgs[0] == d, "distance is pulled back through the inverse")
	vp.Assert(got == x.MetaballDistBound(d), "bound is the wrapped bound at the pulled-back distance")
	bmin, bmax := t.ApplyBounds(x.min, x.max)
	vp.Assert(vp.And(vpEqC(mb.Min(), bmin), vpEqC(mb.Max(), bmax)), "transformed metaball reports the transformed bounds")
	vp.Reach("end")
}

// VP_C03_TransformBounds: the bounds TransformSolid reports are a valid box
// that contains the image of every point of the wrapped solid's box (so the
// CheckedFuncSolid box in front of the pulled-back membership test does not
// cut the shape), per transform kind.
func VP_C03_TransformBounds() {
	x := vpNewBoxSolid("A")
	p := vpPoint("p")
	vp.Assume(vpInBox(p, x.Min(), x.Max()))
	var t Transform
	var mn, mx Coord3D
	if vp.Param("kind") == 3 {
		// any matrix, singular ones included; TransformSolid's box is
		// exactly ApplyBounds of the wrapped box (the other kinds go through
		// TransformSolid itself), and the matrix inverse is not needed here
		m := &Matrix3{}
		for i := range m {
			m[i] = vp.Float64("m")
		}
		t = &Matrix3Transform{Matrix: m}
		mn, mx = t.ApplyBounds(x.Min(), x.Max())
	} else {
		t, _ = vpTransform(vp.Param("kind"))
		ts := TransformSolid(t, x)
		mn, mx = ts.Min(), ts.Max()
	}
	vp.Assert(vp.All(mn.X <= mx.X, mn.Y <= mx.Y, mn.Z <= mx.Z), "TransformSolid reports min <= max")
	q := t.Apply(p)
	vp.Assert(vp.And(q.X >= mn.X, q.X <= mx.X), "image of every point of the box is inside the reported bounds (x)")
	vp.Assert(vp.And(q.Y >= mn.Y, q.Y <= mx.Y), "image of every point of the box is inside the reported bounds (y)")
	vp.Assert(vp.And(q.Z >= mn.Z, q.Z <= mx.Z), "image of every point of the box is inside the reported bounds (z)")
	vp.Reach("end")
}

// VP_C05_MCConj: MarchingCubesConj with several transforms passed separately
// (translate then scale, or scale then translate - they do not commute)
// returns a mesh in the original space: mapped forward again by the
// composite, every vertex is the midpoint of an edge of the sampling lattice
// of the transformed solid. The solid is arbitrary (symbolic answers) inside
// a small fixed box.
func VP_C05_MCConj() {
	s := &vpMemoSolid{min: XYZ(0, 0, 0), max: XYZ(0.5, 0.5, 0.25)}
	off := XYZ(0.25, 0, 0)
	var xf []Transform
	var fwd func(Coord3D) Coord3D
	var shift Coord3D // lattice points of the transformed solid are at shift + integers
	switch vp.Param("order") {
	case 0:
		xf = []Transform{&Translate{Offset: off}, &Scale{Scale: 2}}
		fwd = func(c Coord3D) Coord3D { return c.Add(off).Scale(2) }
		shift = XYZ(0.5, 0, 0)
	case 1:
		xf = []Transform{&Scale{Scale: 2}, &Translate{Offset: off}}
		fwd = func(c Coord3D) Coord3D { return c.Scale(2).Add(off) }
		shift = XYZ(0.25, 0, 0)
	}
	m := MarchingCubesConj(s, 1, 0, xf...)
	any := false
	for _, v := range m.VertexSlice() {
		any = true
		w := fwd(v).Sub(shift).Array()
		nfrac := 0
		for _, x := range w {
			if x != math.Floor(x) {
				nfrac++
				vp.Assert(x-math.Floor(x) == 0.5, "vertex is the midpoint of its lattice edge")
			}
		}
		vp.Assert(nfrac == 1, "mapped forward by the composite transform, every vertex lies on an edge of the transformed solid's sampling lattice")
	}
	_ = any
	vp.Reach("end")
}
