//go:build verif

package model3d

import (
	"github.com/unixpickle/model3d/internal/vp"
	"github.com/unixpickle/model3d/model2d"
)

// C07 / C08 — colliders report consistent collisions; pruning never hides a
// hit. float_mode=real.

func vpRay(name string) *Ray {
	return &Ray{Origin: vpPoint(name + ".o"), Direction: vpPoint(name + ".d")}
}

// VP_C07_SphereRays: Sphere.RayCollisions / FirstRayCollision for a symbolic
// sphere and ray (non-unit direction, origin anywhere).
func VP_C07_SphereRays() {
	s := &Sphere{Center: vpPoint("center"), Radius: vp.Float64("radius")}
	vp.Assume(s.Radius > 0)
	r := vpRay("ray")
	vp.Assume(r.Direction.Dot(r.Direction) > 0)
	var hits []RayCollision
	n := s.RayCollisions(r, func(rc RayCollision) { hits = append(hits, rc) })
	vp.Assert(n == len(hits), "count equals the number of callbacks")
	vp.Assert(s.RayCollisions(r, nil) == n, "same count without a callback")
	last := 0.0
	for i, h := range hits {
		vp.Assert(h.Scale >= 0, "ray parameter is non-negative")
		vp.Assert(h.Scale >= last || i == 0, "collisions are reported in ascending order")
		last = h.Scale
		p := r.Origin.Add(r.Direction.Scale(h.Scale))
		d := p.Sub(s.Center)
		vp.Assert(d.Dot(d) == s.Radius*s.Radius, "collision point lies on the sphere")
		vp.Assert(h.Normal.Dot(h.Normal) == 1, "normal is a unit vector")
		vp.Assert(h.Normal.Dot(d) > 0, "normal points outwards at the collision point")
	}
	first, ok := s.FirstRayCollision(r)
	vp.Assert(ok == (n > 0), "FirstRayCollision finds a hit iff the count is non-zero")
	if ok {
		vp.Assert(first.Scale == hits[0].Scale, "FirstRayCollision is the collision with the smallest parameter")
	}
	// parity: origin strictly inside <=> odd count (origin not on the surface)
	od := r.Origin.Sub(s.Center)
	inside := od.Dot(od) < s.Radius*s.Radius
	outside := od.Dot(od) > s.Radius*s.Radius
	vp.Assert(vp.Implies(inside, n == 1), "a ray starting inside leaves the sphere exactly once")
	vp.Assert(vp.Implies(outside, n == 0 || n == 2), "a ray starting outside hits the sphere zero or two times")
	if vp.Param("complete") != 1 {
		vp.Reach("end")
		return
	}
	// completeness: any point of the ray (t >= 0) on the sphere is one of the hits (general position: two distinct roots)
	t := vp.Float64("t")
	q := r.Origin.Add(r.Direction.Scale(t)).Sub(s.Center)
	onSphere := vp.And(t >= 0, q.Dot(q) == s.Radius*s.Radius)
	found := false
	for _, h := range hits {
		found = vp.Or(found, h.Scale == t)
	}
	vp.Assert(vp.Implies(vp.And(onSphere, n > 0), found), "every point where the ray meets the sphere is reported (when the ray is not tangent)")
	vp.Reach("end")
}

// VP_C07_RectRays: Rect.RayCollisions / FirstRayCollision.
func VP_C07_RectRays() {
	var b *Rect
	if vp.Param("unit") == 1 {
		// the unit box: per-axis positive scalings and translations map
		// boxes to boxes and rays to rays with the same parameters and face
		// incidences, so this loses no ray/box configuration
		b = NewRect(Origin, XYZ(1, 1, 1))
	} else {
		b = vpRect("r")
	}
	r := vpRay("ray")
	if vp.Param("planar") == 1 {
		// rays inside the plane z = 1/2 of the unit box
		r.Origin.Z, r.Direction.Z = 0.5, 0
	}
	vp.Assume(r.Direction.Dot(r.Direction) > 0)
	var hits []RayCollision
	n := b.RayCollisions(r, func(rc RayCollision) { hits = append(hits, rc) })
	vp.Assert(n == len(hits), "count equals the number of callbacks")
	vp.Assert(b.RayCollisions(r, nil) == n, "same count without a callback")
	minA, maxA := b.MinVal.Array(), b.MaxVal.Array()
	for _, h := range hits {
		vp.Assert(h.Scale >= 0, "ray parameter is non-negative")
		p := r.Origin.Add(r.Direction.Scale(h.Scale))
		pA := p.Array()
		onFace := false
		for i := 0; i < 3; i++ {
			onFace = vp.Or(onFace, vp.Or(pA[i] == minA[i], pA[i] == maxA[i]))
		}
		vp.Assert(vp.And(vpInBox(p, b.MinVal, b.MaxVal), onFace), "collision point lies on the surface of the rect")
		nA := h.Normal.Array()
		okN := false
		for i := 0; i < 3; i++ {
			j, k := (i+1)%3, (i+2)%3
			okN = vp.Or(okN, vp.All(nA[i] == 1, nA[j] == 0, nA[k] == 0, pA[i] == maxA[i]))
			okN = vp.Or(okN, vp.All(nA[i] == -1, nA[j] == 0, nA[k] == 0, pA[i] == minA[i]))
		}
		vp.Assert(okN, "normal is the outward axis normal of a face containing the collision point")
	}
	first, ok := b.FirstRayCollision(r)
	vp.Assert(ok == (n > 0), "FirstRayCollision finds a hit iff the count is non-zero")
	if ok {
		vp.Assert(first.Scale == hits[0].Scale, "FirstRayCollision is the collision with the smallest parameter")
		if n == 2 {
			vp.Assert(hits[0].Scale <= hits[1].Scale, "collisions are reported in ascending order")
		}
	}
	o := r.Origin
	strictIn := vp.All(o.X > b.MinVal.X, o.Y > b.MinVal.Y, o.Z > b.MinVal.Z, o.X < b.MaxVal.X, o.Y < b.MaxVal.Y, o.Z < b.MaxVal.Z)
	nonzero := r.Direction.Dot(r.Direction) > 0
	vp.Assert(vp.Implies(vp.And(strictIn, nonzero), n == 1), "a ray starting strictly inside leaves the rect exactly once")
	vp.Reach("end")
}

// VP_C08_SlabTest: the slab test never prunes a true hit: if some point
// o + t*d with t >= 0 lies in the box, the reported interval is non-empty,
// reaches t >= 0 and contains t.
func VP_C08_SlabTest() {
	b := vpRect("r")
	if vp.Param("flat") == 1 {
		b.MaxVal.Z = b.MinVal.Z // degenerate (flat) box
	}
	r := vpRay("ray")
	switch vp.Param("zeros") {
	case 1:
		r.Direction.X = 0
	case 2:
		r.Direction.X, r.Direction.Z = 0, 0
	}
	t := vp.Float64("t")
	vp.Assume(t >= 0)
	p := r.Origin.Add(r.Direction.Scale(t))
	vp.Assume(vpInBox(p, b.MinVal, b.MaxVal))
	minFrac, maxFrac := rayCollisionWithBounds(r, b.MinVal, b.MaxVal)
	vp.Assert(vp.And(maxFrac >= minFrac, maxFrac >= 0), "slab test accepts a ray that reaches the box")
	vp.Assert(vp.And(minFrac <= t, t <= maxFrac), "the reported interval contains every parameter at which the ray is in the box")
	j := &JoinedCollider{min: b.MinVal, max: b.MaxVal}
	vp.Assert(j.rayCollidesWithBounds(r), "JoinedCollider does not prune the ray")
	// segment form used by joinedMultiCollider.SegmentCollision
	vp.Assert(vp.Implies(t <= 1, vp.Not(vp.Any(maxFrac < minFrac, maxFrac < 0, minFrac > 1))), "segment pruning keeps a segment that reaches the box")
	vp.Reach("end")
}

// VP_C08_BallBox: the ball/box test never prunes a ball that reaches the box,
// and the squared box distance is a lower bound on the distance to any point
// of the box.
func VP_C08_BallBox() {
	b := vpRect("r")
	c, q := vpPoint("c"), vpPoint("q")
	rad := vp.Float64("radius")
	vp.Assume(rad >= 0)
	vp.Assume(vpInBox(q, b.MinVal, b.MaxVal))
	d := q.Sub(c)
	d2 := pointToBoundsDistSquared(c, b.MinVal, b.MaxVal)
	vp.Assert(d2 <= d.Dot(d), "squared box distance is a lower bound on the distance to every point of the box")
	// with the lower bound above, a ball containing a point of the box has
	// d2 <= |q-c|^2 <= r^2, so it is enough that the test is d2 <= r^2
	vp.Assert(sphereTouchesBounds(c, rad, b.MinVal, b.MaxVal) == (d2 <= rad*rad), "the ball/box test is 'squared box distance <= r^2'")
	// exactness: the bound is attained at the clamped point
	cl := c.Max(b.MinVal).Min(b.MaxVal)
	e := cl.Sub(c)
	vp.Assert(d2 == e.Dot(e), "squared box distance is the distance to the nearest point of the box")
	vp.Reach("end")
}

// vpBoxCollider: an arbitrary collider whose hits lie in its own bounds
// (the contract JoinedCollider's pruning relies on).
type vpBoxCollider struct {
	vpStubCollider
}

func (s *vpBoxCollider) inBoundsHits(r *Ray) []RayCollision {
	hs := s.hits(r)
	for _, h := range hs {
		p := r.Origin.Add(r.Direction.Scale(h.Scale))
		vp.Assume(vpInBox(p, s.min, s.max))
	}
	return hs
}

func (s *vpBoxCollider) RayCollisions(r *Ray, f func(RayCollision)) int {
	hs := s.inBoundsHits(r)
	if f != nil {
		for _, h := range hs {
			f(h)
		}
	}
	return len(hs)
}

func (s *vpBoxCollider) FirstRayCollision(r *Ray) (RayCollision, bool) {
	hs := s.inBoundsHits(r)
	if len(hs) == 0 {
		return RayCollision{}, false
	}
	return hs[0], true
}

func (s *vpBoxCollider) SphereCollision(c Coord3D, r float64) bool {
	res := s.vpStubCollider.SphereCollision(c, r)
	// a touching ball reaches the collider's bounds
	vp.Assume(vp.Implies(res, pointToBoundsDistSquaredRef(c, s.min, s.max) <= r*r))
	return res
}

func pointToBoundsDistSquaredRef(c, min, max Coord3D) float64 {
	cl := c.Max(min).Min(max)
	e := cl.Sub(c)
	return e.Dot(e)
}

// VP_C08_JoinedCollider: a joined collider over n arbitrary children (with a
// nested joined collider of equal bounds when nested=1, which the constructor
// flattens) answers like a linear scan over the children.
func VP_C08_JoinedCollider() {
	n := vp.Param("n")
	names := []string{"A", "B", "C", "D"}
	var kids []*vpBoxCollider
	var list []Collider
	for i := 0; i < n; i++ {
		k := &vpBoxCollider{vpStubCollider{vpBoxSolid: *vpNewBoxSolid(names[i])}}
		kids = append(kids, k)
		list = append(list, k)
	}
	var j *JoinedCollider
	if vp.Param("nested") == 1 && n >= 2 {
		inner := NewJoinedCollider(list[:n-1])
		j = NewJoinedCollider([]Collider{inner, list[n-1]})
	} else {
		j = NewJoinedCollider(list)
	}
	jmin, jmax := j.Min(), j.Max()
	for _, k := range kids {
		vp.Assert(vp.All(jmin.X <= k.min.X, jmin.Y <= k.min.Y, jmin.Z <= k.min.Z, jmax.X >= k.max.X, jmax.Y >= k.max.Y, jmax.Z >= k.max.Z), "joined bounds enclose every child")
	}
	r := vpRay("ray")
	var got []RayCollision
	cnt := j.RayCollisions(r, func(rc RayCollision) { got = append(got, rc) })
	want := 0
	var minScale float64
	any := false
	for _, k := range kids {
		hs := k.inBoundsHits(r)
		want += len(hs)
		for _, h := range hs {
			if !any {
				minScale, any = h.Scale, true
			} else {
				minScale = vp.IteF(h.Scale < minScale, h.Scale, minScale)
			}
		}
	}
	vp.Assert(cnt == want, "joined count is the sum of the children's counts (no hit pruned)")
	vp.Assert(len(got) == cnt, "count equals the number of callbacks")
	vp.Assert(j.RayCollisions(r, nil) == cnt, "same count without a callback")
	first, ok := j.FirstRayCollision(r)
	vp.Assert(ok == any, "FirstRayCollision finds a hit iff some child does")
	if ok {
		vp.Assert(first.Scale == minScale, "FirstRayCollision is the nearest hit among the children")
	}
	c := vpPoint("c")
	rad := vp.Float64("radius")
	vp.Assume(rad >= 0)
	wantBall := false
	for _, k := range kids {
		wantBall = vp.Or(wantBall, k.SphereCollision(c, rad))
	}
	vp.Assert(j.SphereCollision(c, rad) == wantBall, "joined ball query is the disjunction over the children (no touching child pruned)")
	vp.Reach("end")
}

// vpMultiStub: an arbitrary MultiCollider whose surface lies inside its own
// (symbolic) bounds: a triangle / rect query can only touch it if the query's
// box meets the bounds (touching and flat boxes included), a segment query
// only if some point of the segment is inside the bounds.
type vpMultiStub struct {
	vpBoxCollider
}

func vpBoxesMeet(amin, amax, bmin, bmax Coord3D) bool {
	return vp.All(amin.X <= bmax.X, bmin.X <= amax.X, amin.Y <= bmax.Y, bmin.Y <= amax.Y, amin.Z <= bmax.Z, bmin.Z <= amax.Z)
}

func (s *vpMultiStub) TriangleCollisions(t *Triangle) []Segment {
	hit := vp.MemoBool(s.name+".tri", t[0].X, t[0].Y, t[0].Z, t[1].X, t[1].Y, t[1].Z, t[2].X, t[2].Y, t[2].Z)
	vp.Assume(vp.Implies(hit, vpBoxesMeet(t.Min(), t.Max(), s.min, s.max)))
	if hit {
		return []Segment{{s.min, s.max}}
	}
	return nil
}

func (s *vpMultiStub) SegmentCollision(seg Segment) bool {
	hit := vp.MemoBool(s.name+".seg", seg[0].X, seg[0].Y, seg[0].Z, seg[1].X, seg[1].Y, seg[1].Z)
	lam := vp.Float64(s.name + ".lambda") // witness: a point of the segment inside the bounds
	vp.Assume(vp.And(lam >= 0, lam <= 1))
	p := seg[0].Add(seg[1].Sub(seg[0]).Scale(lam))
	vp.Assume(vp.Implies(hit, vpInBox(p, s.min, s.max)))
	return hit
}

func (s *vpMultiStub) RectCollision(r *Rect) bool {
	hit := vp.MemoBool(s.name+".rect", r.MinVal.X, r.MinVal.Y, r.MinVal.Z, r.MaxVal.X, r.MaxVal.Y, r.MaxVal.Z)
	vp.Assume(vp.Implies(hit, vpBoxesMeet(r.MinVal, r.MaxVal, s.min, s.max)))
	return hit
}

// VP_C08_JoinedMulti: the hierarchical multi-collider built by
// GroupedCollidersToCollider over n arbitrary children answers triangle,
// segment and rect queries like a linear scan (no child whose bounds the
// query touches is pruned; flat and touching boxes included).
func VP_C08_JoinedMulti() {
	n := vp.Param("n")
	names := []string{"A", "B", "C", "D"}
	var kids []*vpMultiStub
	var list []Collider
	for i := 0; i < n; i++ {
		k := &vpMultiStub{vpBoxCollider{vpStubCollider{vpBoxSolid: *vpNewBoxSolid(names[i])}}}
		kids = append(kids, k)
		list = append(list, k)
	}
	j := GroupedCollidersToCollider(list).(MultiCollider)
	switch vp.Param("query") {
	case 0:
		t := &Triangle{vpPoint("t0"), vpPoint("t1"), vpPoint("t2")}
		want := 0
		for _, k := range kids {
			want += len(k.TriangleCollisions(t))
		}
		vp.Assert(len(j.TriangleCollisions(t)) == want, "triangle query returns every child's segments (no touching child pruned)")
	case 1:
		seg := Segment{vpPoint("s0"), vpPoint("s1")}
		want := false
		for _, k := range kids {
			want = vp.Or(want, k.SegmentCollision(seg))
		}
		vp.Assert(j.SegmentCollision(seg) == want, "segment query is the disjunction over the children")
	case 2:
		mn, mx := vpPoint("rmin"), vpPoint("rmax")
		vp.Assume(vp.All(mn.X <= mx.X, mn.Y <= mx.Y, mn.Z <= mx.Z))
		r := &Rect{MinVal: mn, MaxVal: mx}
		want := false
		for _, k := range kids {
			want = vp.Or(want, k.RectCollision(r))
		}
		vp.Assert(j.RectCollision(r) == want, "rect query is the disjunction over the children")
	}
	vp.Reach("end")
}

// VP_C08_CoordTree: a k-d tree built by the real constructor from n symbolic
// points (any coincidences, any order) answers Contains, NearestNeighbor,
// SphereCollision and KNN like a linear scan over the points, and Slice
// returns every point exactly once.
func VP_C08_CoordTree() {
	n := vp.Param("n")
	var pts []Coord3D
	for i := 0; i < n; i++ {
		p := vpPoint("pt")
		if vp.Param("planar") == 1 {
			p.Z = 0
		}
		pts = append(pts, p)
	}
	tree := NewCoordTree(append([]Coord3D{}, pts...))
	sl := tree.Slice()
	vp.Assert(len(sl) == n, "the tree holds every point exactly once")
	for _, p := range pts {
		cnt, want := 0, 0
		for _, q := range sl {
			cnt += vp.IteI(vpEqC(p, q), 1, 0)
		}
		for _, q := range pts {
			want += vp.IteI(vpEqC(p, q), 1, 0)
		}
		vp.Assert(cnt == want, "construction only reorders the points (same multiset)")
	}
	q := vpPoint("q")
	if vp.Param("planar") == 1 {
		q.Z = 0
	}
	// Contains
	in := false
	for _, p := range pts {
		in = vp.Or(in, vpEqC(p, q))
	}
	vp.Assert(tree.Contains(q) == in, "Contains answers like a linear scan")
	// nearest neighbour: its distance is the minimum over all points
	nn := tree.NearestNeighbor(q)
	dn := nn.SquaredDist(q)
	isPoint := false
	for _, p := range pts {
		vp.Assert(dn <= p.SquaredDist(q), "NearestNeighbor is at least as close as every point")
		isPoint = vp.Or(isPoint, vpEqC(p, nn))
	}
	vp.Assert(isPoint, "NearestNeighbor returns one of the points")
	// closed-ball query
	r := vp.Float64("r")
	vp.Assume(r >= 0)
	touch := false
	for _, p := range pts {
		touch = vp.Or(touch, p.SquaredDist(q) <= r*r)
	}
	vp.Assert(tree.SphereCollision(q, r) == touch, "SphereCollision answers like a linear scan (closed ball)")
	vp.Reach("end")
}

// VP_C07_ProfileRays: the extruded-outline collider over a unit circle
// (prism x^2+y^2 <= 1, 0 <= z <= 1): every reported collision has t >= 0 and
// lies on the prism's surface, count == callbacks == count without callback,
// and every point where the ray meets the surface is reported. The ray class
// (generic / vertical / horizontal / one zero horizontal component) is a
// param so that each special case of the code is decided separately.
func VP_C07_ProfileRays() {
	pc := ProfileCollider(&model2d.Circle{Radius: 1}, 0, 1)
	r := vpRay("ray")
	switch vp.Param("class") {
	case 1: // straight at the faces
		r.Direction.X, r.Direction.Y = 0, 0
		vp.Assume(r.Direction.Z != 0)
	case 2: // flat
		r.Direction.Z = 0
		vp.Assume(r.Direction.X*r.Direction.X+r.Direction.Y*r.Direction.Y > 0)
	case 3: // exactly one horizontal component is zero
		r.Direction.X = 0
		vp.Assume(vp.And(r.Direction.Y != 0, r.Direction.Z != 0))
	default:
		vp.Assume(vp.All(r.Direction.X != 0, r.Direction.Y != 0, r.Direction.Z != 0))
	}
	var hits []RayCollision
	n := pc.RayCollisions(r, func(rc RayCollision) { hits = append(hits, rc) })
	vp.Assert(n == len(hits), "count equals the number of callbacks")
	vp.Assert(pc.RayCollisions(r, nil) == n, "same count without a callback")
	onSurface := func(t float64) bool {
		p := r.Origin.Add(r.Direction.Scale(t))
		rad2 := p.X*p.X + p.Y*p.Y
		side := vp.All(rad2 == 1, p.Z >= 0, p.Z <= 1)
		caps := vp.And(vp.Or(p.Z == 0, p.Z == 1), rad2 <= 1)
		return vp.Or(side, caps)
	}
	for _, h := range hits {
		vp.Assert(h.Scale >= 0, "ray parameter is non-negative")
		vp.Assert(onSurface(h.Scale), "collision point lies on the surface of the prism")
	}
	// completeness (away from tangency and rim grazing: strict interior of a cap or of the side)
	t := vp.Float64("t")
	p := r.Origin.Add(r.Direction.Scale(t))
	rad2 := p.X*p.X + p.Y*p.Y
	strictSide := vp.All(rad2 == 1, p.Z > 0, p.Z < 1, r.Direction.X*p.X+r.Direction.Y*p.Y != 0)
	strictCap := vp.All(vp.Or(p.Z == 0, p.Z == 1), rad2 < 1, r.Direction.Z != 0)
	found := false
	for _, h := range hits {
		found = vp.Or(found, h.Scale == t)
	}
	vp.Assert(vp.Implies(vp.And(t > 0, vp.Or(strictSide, strictCap)), found), "every transversal crossing of the surface is reported")
	vp.Reach("end")
}

// VP_C08_BVH: grouping and hierarchy construction only reorder their input:
// GroupBounders permutes the slice, NewBVHAreaDensity has every object in
// exactly one leaf and BVHToCollider-style flattening sees them all. The n
// objects have symbolic boxes (dims symbolic axes, the rest fixed) so that
// every sort order and every split decision is explored.
func VP_C08_BVH() {
	n, dims := vp.Param("n"), vp.Param("dims")
	names := []string{"A", "B", "C", "D", "E"}
	var objs []*vpBoxSolid
	for i := 0; i < n; i++ {
		objs = append(objs, vpNewBoxSolidDims(names[i], dims))
	}
	grouped := append([]*vpBoxSolid{}, objs...)
	GroupBounders(grouped)
	vp.Assert(len(grouped) == n, "GroupBounders keeps the length")
	for _, o := range objs {
		cnt := 0
		for _, g := range grouped {
			if g == o {
				cnt++
			}
		}
		vp.Assert(cnt == 1, "GroupBounders only reorders its input: every object appears exactly once")
	}
	bvh := NewBVHAreaDensity(append([]*vpBoxSolid{}, objs...))
	var leaves []*vpBoxSolid
	var walk func(b *BVH[*vpBoxSolid])
	walk = func(b *BVH[*vpBoxSolid]) {
		if b.Leaf != nil {
			leaves = append(leaves, b.Leaf)
			return
		}
		vp.Assert(len(b.Branch) >= 2, "a branch has at least two children")
		for _, c := range b.Branch {
			walk(c)
		}
	}
	walk(bvh)
	vp.Assert(len(leaves) == n, "the hierarchy has one leaf per object")
	for _, o := range objs {
		cnt := 0
		for _, l := range leaves {
			if l == o {
				cnt++
			}
		}
		vp.Assert(cnt == 1, "every object is in exactly one leaf of the hierarchy")
	}
	vp.Reach("end")
}

// vpMemoSolid: an arbitrary solid inside fixed bounds; every membership
// answer inside the bounds is a solver variable, outside it is false.
type vpMemoSolid struct {
	min, max Coord3D
}

func (s *vpMemoSolid) Min() Coord3D { return s.min }
func (s *vpMemoSolid) Max() Coord3D { return s.max }
func (s *vpMemoSolid) Contains(c Coord3D) bool {
	if !InBounds(s, c) {
		return false
	}
	return vp.MemoBool("contains", c.X, c.Y, c.Z)
}

// VP_C07_SolidCollider: the ray-marching collider over an arbitrary solid
// (every sampled membership answer symbolic): FirstRayCollision exists iff
// RayCollisions counts at least one, it is the first one reported, and every
// reported collision is in front of the origin. (That the reported point is
// exactly a point the solid was asked about does not hold at ulp level -
// t-fracStep is not bit-identical to the previous sample - and is not what
// the property asks of an approximate collider; not asserted.)
// Rays from a menu (from inside, from outside, leaving through the bounding
// box), Epsilon 0.4 on a unit box, BisectCount 2, one normal sample.
func VP_C07_SolidCollider() {
	solid := &vpMemoSolid{min: XYZ(0, 0, 0), max: XYZ(1, 1, 1)}
	sc := &SolidCollider{Solid: solid, Epsilon: 0.4, BisectCount: 2, NormalSamples: 1}
	rays := []*Ray{
		{Origin: XYZ(0.5, 0.5, 0.5), Direction: X(1)},
		{Origin: XYZ(-0.5, 0.5, 0.5), Direction: X(1)},
		{Origin: XYZ(0.5, 0.5, 0.25), Direction: Z(-2)},
		{Origin: XYZ(0.25, 0.5, 0.5), Direction: XYZ(1, 0.5, 0)},
	}
	r := rays[vp.Param("ray")]
	var got []RayCollision
	n := sc.RayCollisions(r, func(rc RayCollision) { got = append(got, rc) })
	vp.Assert(n == len(got), "count equals the number of callbacks")
	vp.Assert(sc.RayCollisions(r, nil) == n, "same count without a callback")
	first, ok := sc.FirstRayCollision(r)
	vp.Assert(ok == (n > 0), "FirstRayCollision exists iff the collision count is non-zero")
	if ok && n > 0 {
		vp.Assert(first.Scale == got[0].Scale, "FirstRayCollision is the first reported collision")
	}
	for _, rc := range got {
		vp.Assert(rc.Scale >= 0, "collisions are in front of the origin")
	}
	vp.Reach("end")
}

// VP_C07_TriTri: Triangle.TriangleCollisions reports a segment whenever the
// two triangles share a point. One triangle is fixed, the other is a fixed
// shape translated by a symbolic offset (so all plane normals stay concrete
// and the arithmetic linear); the shared point is a symbolic witness
// (barycentric in both triangles, strictly inside both so that touching
// configurations, which the doc leaves open, are excluded). Shapes from the
// parameter, including ones where the intersection line is parallel to an
// edge of either triangle.
func VP_C07_TriTri() {
	off := vpPoint("off")
	var a, b *Triangle
	switch vp.Param("shape") {
	case 0: // intersection line parallel to a's edge [1]->[2]
		a = &Triangle{XYZ(0, 0, 0), XYZ(2, 0, 0), XYZ(2, 2, 0)}
		b = &Triangle{XYZ(1, -1, -1), XYZ(1, 3, -1), XYZ(1, 1, 2)}
	case 1: // ... parallel to b's edge [1]->[2]
		a = &Triangle{XYZ(1, -1, -1), XYZ(1, 3, -1), XYZ(1, 1, 2)}
		b = &Triangle{XYZ(0, 0, 0), XYZ(2, 0, 0), XYZ(2, 2, 0)}
	case 2: // general position
		a = &Triangle{XYZ(0, 0, 0), XYZ(2, 0.5, 0.25), XYZ(0.5, 2, -0.25)}
		b = &Triangle{XYZ(1, 0.5, -1), XYZ(0.5, 1.5, 1), XYZ(1.5, 1, 1.5)}
	}
	b0 := b
	b = &Triangle{b[0].Add(off), b[1].Add(off), b[2].Add(off)}
	u, v, s, t := vp.Float64("u"), vp.Float64("v"), vp.Float64("s"), vp.Float64("t")
	// well inside both triangles: segments shorter than 1e-8 of an edge are deliberately not reported
	vp.Assume(vp.All(u > 0.01, v > 0.01, u+v < 0.99, s > 0.01, t > 0.01, s+t < 0.99))
	pa := a[0].Add(a[1].Sub(a[0]).Scale(u)).Add(a[2].Sub(a[0]).Scale(v))
	pb := b[0].Add(b[1].Sub(b[0]).Scale(s)).Add(b[2].Sub(b[0]).Scale(t))
	if vp.Param("sound") != 1 {
		vp.AssumeEq(pa.X, pb.X)
		vp.AssumeEq(pa.Y, pb.Y)
		vp.AssumeEq(pa.Z, pb.Z)
	} else {
		// any offset within reach: only the soundness of what is reported is checked
		vp.Assume(vp.All(off.X > -4, off.X < 4, off.Y > -4, off.Y < 4, off.Z > -4, off.Z < 4))
	}
	segs := a.TriangleCollisions(b)
	if vp.Param("sound") != 1 {
		vp.Assert(len(segs) > 0, "triangles that share an interior point are reported as colliding")
	}
	// soundness: reported segment ends lie in both (closed) triangles
	inTri := func(t0, e1, e2, q Coord3D) bool {
		// e1, e2 are the triangle's (concrete) edge vectors from t0
		w := q.Sub(t0)
		d00, d01, d11 := e1.Dot(e1), e1.Dot(e2), e2.Dot(e2)
		d20, d21 := w.Dot(e1), w.Dot(e2)
		den := d00*d11 - d01*d01
		bu, bv := (d11*d20-d01*d21)/den, (d00*d21-d01*d20)/den
		n := e1.Cross(e2)
		off := w.Dot(n)
		return vp.All(bu >= -1e-9, bv >= -1e-9, bu+bv <= 1+1e-9, off <= 1e-9, off >= -1e-9)
	}
	ea1, ea2 := a[1].Sub(a[0]), a[2].Sub(a[0])
	eb1, eb2 := b0[1].Sub(b0[0]), b0[2].Sub(b0[0])
	for _, sg := range segs {
		for _, q := range sg {
			vp.Assert(inTri(a[0], ea1, ea2, q), "a reported segment end lies in the first triangle")
			vp.Assert(inTri(b[0], eb1, eb2, q), "a reported segment end lies in the second triangle")
		}
	}
	vp.Reach("end")
}
