//go:build verif

package model3d

import (
	"math"
	"github.com/unixpickle/model3d/internal/vp"
)

// C10 (thin slice, 3D).

func vpTetra() (*Mesh, []Coord3D) {
	p := []Coord3D{XYZ(0, 0, 0), XYZ(4, 0, 0), XYZ(0, 4, 0), XYZ(0, 0, 4)}
	m := NewMesh()
	m.Add(&Triangle{p[0], p[2], p[1]})
	m.Add(&Triangle{p[0], p[1], p[3]})
	m.Add(&Triangle{p[1], p[2], p[3]})
	m.Add(&Triangle{p[2], p[0], p[3]})
	return m, p
}

func vpClosedOriented3(m *Mesh, what string) {
	vp.Assert(!m.NeedsRepair(), what+": every edge is shared by exactly two triangles")
	vp.Assert(len(m.InconsistentEdges()) == 0, what+": the two triangles at an edge traverse it in opposite directions")
	vp.Assert(len(m.SingularVertices()) == 0, what+": no vertex pinches two sheets together")
}

// VP_C10_Blur: Blur places vertices by its published rule for a symbolic
// rate: rate 0 is the identity, rate 1 the neighbour mean, in general
// (1-r)*v + r*mean(neighbours); connectivity is unchanged.
func VP_C10_Blur() {
	m, p := vpTetra()
	r := vp.Float64("rate")
	vp.Assume(vp.And(r >= 0, r <= 1))
	res := m.Blur(r)
	vp.Assert(res.NumTriangles() == 4, "Blur keeps the faces")
	mean := func(i int) Coord3D {
		var s Coord3D
		for j := range p {
			if j != i {
				s = s.Add(p[j])
			}
		}
		return s.Scale(1.0 / 3)
	}
	moved := make([]Coord3D, 4)
	for i := range p {
		moved[i] = p[i].Scale(1 - r).Add(mean(i).Scale(r))
	}
	has := func(a, b, c Coord3D) bool {
		found := false
		res.Iterate(func(t *Triangle) {
			found = vp.Or(found, vp.All(vpEqC(t[0], a), vpEqC(t[1], b), vpEqC(t[2], c)))
		})
		return found
	}
	vp.Assert(has(moved[0], moved[2], moved[1]), "each vertex moves to (1-rate)*v + rate*mean(neighbours), faces keep their corners (face 0)")
	vp.Assert(has(moved[1], moved[2], moved[3]), "each vertex moves to (1-rate)*v + rate*mean(neighbours), faces keep their corners (face 2)")
	id := m.Blur(0)
	vp.Assert(id.NumTriangles() == 4, "Blur(0) keeps the faces")
	id.Iterate(func(t *Triangle) {
		vp.Assert(len(m.Find(t[0], t[1], t[2])) == 1, "rate 0 is the identity")
	})
	vp.Reach("end")
}

// VP_C10_SubdivideEdges: edge subdivision of a closed oriented mesh is closed
// and oriented, multiplies the face count by n^2, and leaves the enclosed
// volume unchanged; points on shared edges coincide exactly. One vertex of
// the tetrahedron is symbolic (kept in general position).
func VP_C10_SubdivideEdges() {
	n := vp.Param("n")
	m, _ := vpTetra()
	res := SubdivideEdges(m, n)
	vp.Assert(res.NumTriangles() == 4*n*n, "each triangle becomes n^2 triangles")
	vpClosedOriented3(res, "SubdivideEdges")
	vol := func(mm *Mesh) float64 {
		v := 0.0
		mm.Iterate(func(t *Triangle) {
			v += t[0].Dot(t[1].Cross(t[2]))
		})
		return v
	}
	vp.AssertNear(vol(res), vol(m), 1e-9, "edge subdivision leaves the enclosed volume unchanged")
	vp.Reach("end")
}

// VP_C10_DivideSegment: the points SubdivideEdges places on an edge do not
// depend on the direction in which a triangle passes the edge (otherwise the
// two triangles sharing it crack apart): divideSegment(a,b) is the exact
// (bit-identical) reverse of divideSegment(b,a) for symbolic float64 ends,
// including ends that differ in one coordinate only.
func VP_C10_DivideSegment() {
	n := vp.Param("n")
	a, b := vpPoint("a"), vpPoint("b")
	switch vp.Param("equal") {
	case 1: // ends differ in z only
		b.X, b.Y = a.X, a.Y
	case 2: // ends differ in y and z only
		b.X = a.X
	}
	for _, x := range []float64{a.X, a.Y, a.Z, b.X, b.Y, b.Z} {
		vp.Assume(x >= -1000 && x <= 1000)
	}
	vp.Assume(vp.Any(a.X != b.X, a.Y != b.Y, a.Z != b.Z)) // an edge has two different ends
	fwd, bwd := make([]Coord3D, n+1), make([]Coord3D, n+1)
	divideSegment(a, b, fwd)
	divideSegment(b, a, bwd)
	same := func(p, q Coord3D) bool {
		return vp.All(math.Float64bits(p.X) == math.Float64bits(q.X), math.Float64bits(p.Y) == math.Float64bits(q.Y), math.Float64bits(p.Z) == math.Float64bits(q.Z))
	}
	for i := range fwd {
		vp.Assert(same(fwd[i], bwd[n-i]), "the subdivision points of an edge are the same from both ends")
	}
	vp.Assert(vp.And(same(fwd[0], a), same(fwd[n], b)), "the ends are kept exactly")
	vp.Reach("end")
}
