//go:build verif

package model3d

import (
	"sync"
	"math"

	"github.com/unixpickle/model3d/internal/vp"
)

// C02 — vertices sit on sign-changing lattice edges; search refinement keeps
// a contained end and halves the bracket; reported interior points are
// contained. The solid is arbitrary: every Contains answer is a solver variable
// (an uninterpreted predicate of the query point).

// vpStubSolid is an arbitrary solid inside the given bounds.
type vpStubSolid struct {
	min, max Coord3D
	queries  []Coord3D
	answers  []bool
}

func (s *vpStubSolid) Min() Coord3D { return s.min }
func (s *vpStubSolid) Max() Coord3D { return s.max }
func (s *vpStubSolid) Contains(c Coord3D) bool {
	a := vp.MemoBool("contains", c.X, c.Y, c.Z)
	s.queries = append(s.queries, c)
	s.answers = append(s.answers, a)
	return a
}

// answered reports whether the stub was asked about c and what it said.
func (s *vpStubSolid) answered(c Coord3D) (asked bool, ans bool) {
	for i, q := range s.queries {
		if q == c {
			return true, s.answers[i]
		}
	}
	return false, false
}

// VP_C02_Bisect: SolidSurfaceEstimator bisection over an arbitrary solid.
func VP_C02_Bisect() {
	n := vp.Param("n")
	stub := &vpStubSolid{min: XYZ(-10, -10, -10), max: XYZ(10, 10, 10)}
	est := &SolidSurfaceEstimator{Solid: stub, BisectCount: n}
	p1, p2 := XYZ(0.25, -1, 2), XYZ(1.25, 3, -2)
	in1, in2 := stub.Contains(p1), stub.Contains(p2)
	vp.Assume(in1 != in2)
	// orient as Bisect does: p1 outside, p2 inside
	if in1 {
		p1, p2 = p2, p1
	}
	stub.queries, stub.answers = nil, nil

	lo, hi := est.BisectInterpRange(p1, p2, 0, 1)
	vp.Assert(hi-lo == 1/math.Pow(2, float64(n)), "bracket halves every iteration")
	d := p2.Sub(p1)
	if hi != 1 {
		asked, ans := stub.answered(p1.Add(d.Scale(hi)))
		vp.Assert(asked && ans, "upper end of the bracket is a point the solid contains")
	}
	if lo != 0 {
		asked, ans := stub.answered(p1.Add(d.Scale(lo)))
		vp.Assert(asked && !ans, "lower end of the bracket is a point the solid excludes")
	}
	vp.Assert(len(stub.queries) == n, "one membership query per iteration")

	// public entry points, either argument order
	a, b := XYZ(0.25, -1, 2), XYZ(1.25, 3, -2)
	if vp.Choice("swap", 2) == 1 {
		a, b = b, a
	}
	inner := est.BisectInterior(a, b)
	vp.Assert(stub.Contains(inner), "BisectInterior returns a contained point")
	mid := est.Bisect(a, b)
	vp.Assert(mid.Dist(inner) <= a.Dist(b)/math.Pow(2, float64(n)), "Bisect result within one bracket of the contained end")
	vp.Reach("end")
}

// VP_C02_BisectSym: BisectInterior for symbolic segment ends (bit-precise
// floats): the point it returns is one the solid was asked about and
// answered "contained" for - the uninterpreted Contains predicate is only
// known to be true where it said so, so a returned point that is computed by
// a differently rounded expression (and may be an ulp away) is a violation.
func VP_C02_BisectSym() {
	n := vp.Param("n")
	stub := &vpStubSolid{min: XYZ(-10, -10, -10), max: XYZ(10, 10, 10)}
	est := &SolidSurfaceEstimator{Solid: stub, BisectCount: n}
	// the segment is parallel to the x axis (the shape of a lattice edge)
	a := XYZ(vp.Float64("ax"), 0.5, -0.25)
	b := XYZ(vp.Float64("bx"), 0.5, -0.25)
	vp.Assume(vp.All(a.X >= -8, a.X <= 8, b.X >= -8, b.X <= 8))
	in1, in2 := stub.Contains(a), stub.Contains(b)
	vp.Assume(in1 != in2)
	inner := est.BisectInterior(a, b)
	vp.Assert(stub.Contains(inner), "BisectInterior returns a contained point")
	vp.Reach("end")
}

// vpLatticeStubSolid: lattice points have symbolic membership (empty outer
// layer); every other point gets an arbitrary answer, recorded.
type vpLatticeStubSolid struct {
	vpLatticeSolid
	mu      sync.Mutex // the search stage asks from several goroutines
	queries []Coord3D
	answers []bool
}

func (l *vpLatticeStubSolid) Contains(c Coord3D) bool {
	if c.X == math.Floor(c.X) && c.Y == math.Floor(c.Y) && c.Z == math.Floor(c.Z) {
		return l.vpLatticeSolid.Contains(c)
	}
	a := vp.MemoBool("contains", c.X, c.Y, c.Z)
	l.mu.Lock()
	l.queries = append(l.queries, c)
	l.answers = append(l.answers, a)
	l.mu.Unlock()
	return a
}

func (l *vpLatticeStubSolid) says(c Coord3D) (known bool, ans bool) {
	if c.X == math.Floor(c.X) && c.Y == math.Floor(c.Y) && c.Z == math.Floor(c.Z) {
		return true, l.vpLatticeSolid.Contains(c)
	}
	for i, q := range l.queries {
		if q == c {
			return true, l.answers[i]
		}
	}
	return false, false
}

// VP_C02_Interior: the real MarchingCubesInterior (MarchingCubes + mcSearch +
// LookupEdgePoint + mcSearchPoint) on a lattice solid.
func VP_C02_Interior() {
	nx, ny, nz, iters := vp.Param("nx"), vp.Param("ny"), vp.Param("nz"), vp.Param("iters")
	l := &vpLatticeStubSolid{vpLatticeSolid: vpLatticeSolid{nx: nx, ny: ny, nz: nz, vals: make([]bool, nx*ny*nz)}}
	any := false
	for i := range l.vals {
		l.vals[i] = vp.Bool("inside")
		any = any || l.vals[i]
	}
	vp.Assume(any)
	base := MarchingCubes(l, 1)
	nVerts := len(base.VertexSlice())
	m, interior := MarchingCubesInterior(l, 1, iters)

	vp.Assert(vpMeshClosedOriented(m), "mesh is still a closed oriented manifold after the in-place search rewrite")
	vp.Assert(len(m.VertexSlice()) == nVerts, "search keeps the number of vertices")
	width := 1 / math.Pow(2, float64(iters))
	for _, v := range m.VertexSlice() {
		// exactly one non-integer coordinate: the vertex is on a lattice edge
		arr := v.Array()
		axis, nfrac := -1, 0
		for i, x := range arr {
			if x != math.Floor(x) {
				axis = i
				nfrac++
			}
		}
		vp.Assert(nfrac == 1, "vertex lies on a lattice edge")
		lo, hi := arr, arr
		lo[axis], hi[axis] = math.Floor(arr[axis]), math.Floor(arr[axis])+1
		_, inLo := l.says(NewCoord3DArray(lo))
		_, inHi := l.says(NewCoord3DArray(hi))
		vp.Assert(inLo != inHi, "the edge's two lattice ends are classified differently")

		ip, ok := interior.Load(v)
		vp.Assert(ok, "every vertex has an interior point")
		known, ans := l.says(ip)
		vp.Assert(known && ans, "reported interior point is contained in the solid")
		// bracket: the vertex is the midpoint of [interior, excluded] of width 1/2^iters
		iarr := ip.Array()
		vp.Assert(math.Abs(iarr[axis]-arr[axis]) == width/2, "vertex is half a bracket from the contained end")
		other := arr
		other[axis] = 2*arr[axis] - iarr[axis]
		known2, ans2 := l.says(NewCoord3DArray(other))
		vp.Assert(known2 && !ans2, "the other end of the bracket is a point the solid excludes")
		for i := range arr {
			if i != axis {
				vp.Assert(iarr[i] == arr[i], "interior point is on the same lattice edge")
			}
		}
	}
	vp.Reach("end")
}

// VP_C02_DCClip: with Clip enabled every dual-contouring vertex stays inside
// the lattice cell that produced it, shrunk by CubeMargin*Delta, for a
// symbolic CubeMargin in (0, 1/2] (and for the default margin). The per-cell
// stage is driven directly (populateCorners/Edges/Cubes) on a small solid
// with sharp features; only the margin is symbolic.
func VP_C02_DCClip() {
	solid := NewRect(XYZ(-0.43, -0.37, -0.29), XYZ(0.41, 0.33, 0.47))
	delta := 0.5
	dc := &DualContouring{
		S:        SolidSurfaceEstimator{Solid: solid},
		Delta:    delta,
		Clip:     true,
		NoJitter: true,
		MaxGos:   1,
	}
	margin := 0.0
	if vp.Param("explicit") == 1 {
		margin = vp.Float64("cubeMargin")
		vp.Assume(vp.And(margin > 0, margin <= 0.5))
		dc.CubeMargin = margin
	}
	layout := newDcCubeLayout(solid.Min(), solid.Max(), dc.Delta, dc.NoJitter, dc.BufferSize)
	vp.Assert(layout.Remaining() == 0, "single-pass layout")
	dc.populateCorners(layout)
	dc.populateEdges(layout, nil)
	dc.populateCubes(layout)
	active := 0
	for i := range layout.Cubes {
		idx := dcCubeIdx(i)
		if !layout.CubeActive(idx) {
			continue
		}
		active++
		mn, mx := layout.CubeMinMax(idx)
		p := layout.Cube(idx).VertexPosition
		vp.Assert(vpInBox(p, mn, mx), "clipped vertex stays inside its cell")
		if vp.Param("explicit") == 1 {
			m := margin * delta
			vp.Assert(vp.All(p.X >= mn.X+m, p.Y >= mn.Y+m, p.Z >= mn.Z+m, p.X <= mx.X-m, p.Y <= mx.Y-m, p.Z <= mx.Z-m), "clipped vertex keeps CubeMargin*Delta from the cell walls")
		}
	}
	vp.Assert(active > 0, "some cells are active")
	vp.Reach("end")
}
