//go:build verif

package model3d

import (
	"math"

	"github.com/unixpickle/model3d/internal/vp"
)

// C06 — signed distance fields: value, sign, nearest point, normal.
// float_mode=real.

func vpRect(name string) *Rect {
	mn, mx := vpPoint(name+".min"), vpPoint(name+".max")
	vp.Assume(vp.All(mn.X < mx.X, mn.Y < mx.Y, mn.Z < mx.Z))
	return NewRect(mn, mx)
}

// VP_C06_RectSDF: Rect SDF / PointSDF / NormalSDF against the definition.
func VP_C06_RectSDF() {
	r := vpRect("r")
	c := vpPoint("c")
	sdf := r.SDF(c)
	inside := vpInBox(c, r.MinVal, r.MaxVal)
	strict := vp.All(c.X > r.MinVal.X, c.Y > r.MinVal.Y, c.Z > r.MinVal.Z, c.X < r.MaxVal.X, c.Y < r.MaxVal.Y, c.Z < r.MaxVal.Z)
	vp.Assert(r.Contains(c) == inside, "Rect.Contains is the closed box")
	vp.Assert((sdf > 0) == strict, "SDF is positive exactly strictly inside")
	vp.Assert((sdf >= 0) == inside, "SDF is non-negative exactly where the rect contains the point")

	// reference distance to the boundary
	minA, maxA, cA := r.MinVal.Array(), r.MaxVal.Array(), c.Array()
	insideDist := math.Inf(1)
	outSq := 0.0
	for i := 0; i < 3; i++ {
		insideDist = math.Min(insideDist, math.Min(cA[i]-minA[i], maxA[i]-cA[i]))
		d := math.Max(0, math.Max(minA[i]-cA[i], cA[i]-maxA[i]))
		outSq += d * d
	}
	vp.Assert(vp.Implies(inside, sdf == insideDist), "inside: SDF is the distance to the nearest face")
	vp.Assert(vp.Implies(vp.Not(inside), vp.And(sdf <= 0, sdf*sdf == outSq)), "outside: SDF is minus the Euclidean distance to the box")

	p, sdf2 := r.PointSDF(c)
	vp.Assert(sdf2 == sdf, "PointSDF reports the same distance")
	pA := p.Array()
	onFace := false
	for i := 0; i < 3; i++ {
		onFace = vp.Or(onFace, vp.Or(pA[i] == minA[i], pA[i] == maxA[i]))
	}
	vp.Assert(vp.And(vpInBox(p, r.MinVal, r.MaxVal), onFace), "nearest point lies on the surface of the rect")
	dp := c.Sub(p)
	vp.Assert(dp.Dot(dp) == sdf*sdf, "nearest point is at the reported distance")

	n, sdf3 := r.NormalSDF(c)
	vp.Assert(sdf3 == sdf, "NormalSDF reports the same distance")
	nA := n.Array()
	okN := false
	for i := 0; i < 3; i++ {
		j, k := (i+1)%3, (i+2)%3
		plus := vp.All(nA[i] == 1, nA[j] == 0, nA[k] == 0)
		minus := vp.All(nA[i] == -1, nA[j] == 0, nA[k] == 0)
		// the face named by the normal is a nearest face
		faceDistPlus := vp.IteF(inside, maxA[i]-cA[i], 0)
		faceDistMinus := vp.IteF(inside, cA[i]-minA[i], 0)
		okN = vp.Or(okN, vp.And(plus, vp.Implies(inside, faceDistPlus == sdf)))
		okN = vp.Or(okN, vp.And(minus, vp.Implies(inside, faceDistMinus == sdf)))
	}
	vp.Assert(okN, "normal is the outward axis normal of a nearest face")
	// outside: the normal has a non-negative component along c - nearest
	vp.Assert(vp.Implies(vp.Not(inside), n.Dot(dp) >= 0), "outside: normal points towards the query side")
	vp.Reach("end")
}

// VP_C06_SphereSDF: Sphere SDF / PointSDF / NormalSDF.
func VP_C06_SphereSDF() {
	s := &Sphere{Center: vpPoint("center"), Radius: vp.Float64("radius")}
	vp.Assume(s.Radius > 0)
	c := vpPoint("c")
	d := c.Sub(s.Center)
	d2 := d.Dot(d)
	sdf := s.SDF(c)
	vp.Assert((sdf >= 0) == (d2 <= s.Radius*s.Radius), "SDF sign agrees with the closed ball")
	vp.Assert(s.Contains(c) == (d2 <= s.Radius*s.Radius), "Contains is the closed ball")
	vp.Assert(vp.And(s.Radius-sdf >= 0, (s.Radius-sdf)*(s.Radius-sdf) == d2), "SDF is radius minus distance to the centre")
	p, sdf2 := s.PointSDF(c)
	vp.Assert(vp.Or(sdf2 == sdf, d2 == 0), "PointSDF reports the same distance")
	pc := p.Sub(s.Center)
	vp.Assert(pc.Dot(pc) == s.Radius*s.Radius, "nearest point lies on the sphere")
	cp := c.Sub(p)
	vp.Assert(cp.Dot(cp) == sdf*sdf, "nearest point is at the reported distance")
	n, _ := s.NormalSDF(c)
	vp.Assert(n.Dot(n) == 1, "normal is a unit vector")
	vp.Assert(vp.Or(d2 == 0, vpEqC(n.Scale(s.Radius), pc)), "normal is the outward normal at the nearest point")
	r2 := vp.Float64("r2")
	vp.Assume(r2 >= 0)
	vp.Assert(s.SphereCollision(c, r2) == (math.Abs(sdf) <= r2), "ball touches the surface iff |SDF| <= r")
	vp.Reach("end")
}

// VP_C06_ConeNormal: the normal reported for the side of a cone is
// perpendicular to the generator through the nearest point, and the base
// normal is the base axis. Cone along +z from the origin with height
// h in {2, 1/2} (param), symbolic radius; the query point ranges over a menu
// of positions in the half-plane y = 0 (outside the side, below the base,
// inside, above the tip, near the axis) - by rotational symmetry this is no
// restriction of direction.
func VP_C06_ConeNormal() {
	h := []float64{2, 0.5}[vp.Param("h")]
	cone := &Cone{Base: Origin, Tip: Z(h), Radius: vp.Float64("radius")}
	// away from the 1e-5 degenerate-direction fallback of safeNormal
	vp.Assume(cone.Radius > 0.01)
	pts := []Coord3D{XYZ(1, 0, 1), XYZ(3, 0, 0.5), XYZ(0.5, 0, -1), XYZ(0.25, 0, 0.25), XYZ(2, 0, 3), XYZ(0.125, 0, 0.125)}
	p := pts[vp.Param("point")]
	var n, q Coord3D
	cone.genericSDF(p, &n, &q)
	vp.Assert(n.Dot(n) == 1, "normal is a unit vector")
	isBase := vp.All(n.X == 0, n.Y == 0, n.Z == -1)
	gen := cone.Tip.Sub(q)
	vp.Assert(vp.Or(isBase, n.Dot(gen) == 0), "side normal is perpendicular to the generator through the nearest point")
	vp.Assert(vp.Or(isBase, vp.And(n.Z > 0, n.X > 0)), "side normal points outwards and towards the tip")

	vp.Reach("end")
}

// VP_C06_ConeRayNormal: the normal reported by ray casting at a side hit is
// perpendicular to the generator through the hit point. Horizontal ray from
// outside towards the axis at mid height; symbolic radius in (0.01, 5).
func VP_C06_ConeRayNormal() {
	h := []float64{2, 0.5}[vp.Param("h")]
	cone := &Cone{Base: Origin, Tip: Z(h), Radius: vp.Float64("radius")}
	vp.Assume(vp.And(cone.Radius > 0.01, cone.Radius < 5))
	ray := &Ray{Origin: XYZ(10, 0, h/2), Direction: X(-1)}
	first, ok := cone.FirstRayCollision(ray)
	vp.Assert(ok, "a horizontal ray through the axis hits the cone")
	hit := ray.Origin.Add(ray.Direction.Scale(first.Scale))
	vp.Assert(first.Normal.Dot(cone.Tip.Sub(hit)) == 0, "ray-cast side normal is perpendicular to the generator through the hit point")
	vp.Assert(vp.And(first.Normal.X > 0, first.Normal.Z > 0), "ray-cast side normal points outwards and towards the tip")
	vp.Assert(cone.RayCollisions(ray, nil) == 2, "the ray enters and leaves through the side")
	vp.Reach("end")
}

// VP_C03_Primitives: primitives contain no point outside their reported
// bounds, and the bounds are valid. Sphere and capsule fully symbolic;
// cylinder, cone and torus with the axis along a coordinate axis (param
// axis) and symbolic position, length and radii.
func VP_C03_Primitives() {
	p := vpPoint("p")
	var s Solid
	axes := []Coord3D{X(1), Y(1), Z(1), Z(-1)}
	switch vp.Param("shape") {
	case 0:
		r := vp.Float64("radius")
		vp.Assume(r >= 0)
		s = &Sphere{Center: vpPoint("center"), Radius: r}
	case 1:
		r := vp.Float64("radius")
		vp.Assume(r >= 0)
		p1 := vpPoint("p1")
		l := vp.Float64("len")
		vp.Assume(l > 0)
		s = &Capsule{P1: p1, P2: p1.Add(axes[vp.Param("axis")].Scale(l)), Radius: r}
	case 2:
		r := vp.Float64("radius")
		vp.Assume(r > 0)
		p1 := vpPoint("p1")
		l := vp.Float64("len")
		vp.Assume(l > 0)
		s = &Cylinder{P1: p1, P2: p1.Add(axes[vp.Param("axis")].Scale(l)), Radius: r}
	case 3:
		r := vp.Float64("radius")
		vp.Assume(r > 0)
		base := vpPoint("base")
		l := vp.Float64("len")
		vp.Assume(l > 0)
		s = &Cone{Base: base, Tip: base.Add(axes[vp.Param("axis")].Scale(l)), Radius: r}
	case 4:
		ri, ro := vp.Float64("inner"), vp.Float64("outer")
		vp.Assume(vp.And(ri > 0, ro > ri))
		s = &Torus{Center: vpPoint("center"), Axis: axes[vp.Param("axis")], InnerRadius: ri, OuterRadius: ro}
	}
	mn, mx := s.Min(), s.Max()
	vp.Assert(vp.All(mn.X <= mx.X, mn.Y <= mx.Y, mn.Z <= mx.Z), "bounds are valid (min <= max)")
	in := s.Contains(p)
	vp.Assert(vp.Implies(in, vp.And(p.X >= mn.X, p.X <= mx.X)), "contained points are inside the bounds (x)")
	vp.Assert(vp.Implies(in, vp.And(p.Y >= mn.Y, p.Y <= mx.Y)), "contained points are inside the bounds (y)")
	vp.Assert(vp.Implies(in, vp.And(p.Z >= mn.Z, p.Z <= mx.Z)), "contained points are inside the bounds (z)")
	vp.Reach("end")
}

// VP_C06_TorusSDF: torus about the z axis through a symbolic centre with
// symbolic radii (inner < outer): the SDF is the inner radius minus the
// distance to the centre ring, for every query point including the points of
// the axis of symmetry (strictFP=1: no division by zero on the way); the
// sign agrees with Contains.
func VP_C06_TorusSDF() {
	tor := &Torus{Center: vpPoint("center"), Axis: Z(1), InnerRadius: vp.Float64("inner"), OuterRadius: vp.Float64("outer")}
	vp.Assume(vp.And(tor.InnerRadius > 0.01, tor.OuterRadius > tor.InnerRadius))
	c := vpPoint("c")
	if vp.Param("onAxis") == 1 {
		c.X, c.Y = tor.Center.X, tor.Center.Y
	}
	sdf := tor.SDF(c)
	d := c.Sub(tor.Center)
	rho := vp.Float64("rho")
	vp.Assume(rho >= 0)
	vp.AssumeEq(rho*rho, d.X*d.X+d.Y*d.Y)
	ring2 := (rho-tor.OuterRadius)*(rho-tor.OuterRadius) + d.Z*d.Z
	s := tor.InnerRadius - sdf
	vp.Assert(vp.And(s >= 0, s*s == ring2), "SDF is the inner radius minus the distance to the centre ring")
	vp.Assert(tor.Contains(c) == (ring2 <= tor.InnerRadius*tor.InnerRadius), "Contains is the closed tube")
	vp.Reach("end")
}

// VP_C17_Matrix3: 3x3 matrix kernels for symbolic entries: determinant
// expansion, inverse in both orders, MulColumnInv, product = composition,
// transpose, columns; rotation matrices about the coordinate axes are
// orthogonal with determinant 1 and fix their axis.
func VP_C17_Matrix3() {
	m := &Matrix3{}
	for i := range m {
		m[i] = vp.Float64("m")
	}
	p := vpPoint("p")
	det := m.Det()
	vp.Assert(det == m[0]*m[4]*m[8]+m[1]*m[5]*m[6]+m[2]*m[3]*m[7]-m[2]*m[4]*m[6]-m[1]*m[3]*m[8]-m[0]*m[5]*m[7], "Matrix3.Det is the Leibniz expansion")
	tr := m.Transpose()
	for i := 0; i < 3; i++ {
		for j := 0; j < 3; j++ {
			vp.Assert(tr[3*i+j] == m[3*j+i], "Matrix3.Transpose")
		}
	}
	cols := NewMatrix3Columns(p, vpPoint("q"), vpPoint("r"))
	vp.Assert(vpEqC(cols.MulColumn(X(1)), p), "NewMatrix3Columns: first column is the image of e1")
	if vp.Param("part") == 0 {
		vp.Assume(det != 0)
		inv := m.Inverse()
		vp.Assert(vpEqC(inv.MulColumn(m.MulColumn(p)), p), "Matrix3: Inverse * M * p == p")
		vp.Assert(vpEqC(m.MulColumn(inv.MulColumn(p)), p), "Matrix3: M * Inverse * p == p")
		vp.Assert(vpEqC(m.MulColumnInv(m.MulColumn(p), det), p), "Matrix3.MulColumnInv inverts MulColumn")
	} else {
		m2 := &Matrix3{}
		for i := range m2 {
			m2[i] = vp.Float64("n")
		}
		vp.Assert(vpEqC(m.Mul(m2).MulColumn(p), m.MulColumn(m2.MulColumn(p))), "Matrix3.Mul is composition")
		sum := m.Add(m2)
		vp.Assert(vpEqC(sum.MulColumn(p), m.MulColumn(p).Add(m2.MulColumn(p))), "Matrix3.Add is the pointwise sum")
		for ai, axis := range []Coord3D{X(1), Y(1), Z(-1)} {
			rot := NewMatrix3Rotation(axis, vp.Float64("theta"))
			rtr := rot.Transpose().Mul(rot)
			id := Matrix3{1, 0, 0, 0, 1, 0, 0, 0, 1}
			for i := range id {
				vp.Assert(rtr[i] == id[i], "rotation matrix is orthogonal")
			}
			vp.Assert(rot.Det() == 1, "rotation matrix has determinant 1")
			vp.Assert(vpEqC(rot.MulColumn(axis), axis), "rotation fixes its axis")
			_ = ai
		}
	}
	vp.Reach("end")
}

// VP_C03_CircleAxisBound: the axis extent of a unit disc with a symbolic unit
// normal (any tilt, including almost-parallel to a coordinate axis) is at
// least the true extent sqrt(1 - n_axis^2), on the side given by sign, for
// each of the three axes (this is what Cylinder, Cone and Torus bounds are
// built from).
func VP_C03_CircleAxisBound() {
	n := vpPoint("normal")
	vp.AssumeEq(n.X*n.X+n.Y*n.Y+n.Z*n.Z, 1)
	axis := vp.Param("axis")
	sign := 1.0
	if vp.Choice("negative", 2) == 1 {
		sign = -1
	}
	w := sign * circleAxisBound(axis, n, sign)
	na := n.Array()[axis]
	vp.Assert(w >= 0, "extent is on the side given by sign")
	vp.Assert(w*w >= 1-na*na, "extent covers the tilted disc: at least sqrt(1 - n_axis^2)")
	vp.Assert(w <= 1+1e-7, "extent is at most the radius (plus the numerical pad)")
	vp.Reach("end")
}

// VP_C17_SymEigVector: the null-vector search behind Matrix3.SVD /
// symmetric eigenvectors, on symmetric matrices that map the xy plane and the
// z axis separately (symbolic 2x2 block a,c,b and symbolic eigenvalue in the
// z slot, which makes the third row of A - val*I vanish): the returned unit
// vector is an eigenvector for val.
func VP_C17_SymEigVector() {
	a, b, c, val := vp.Float64("a"), vp.Float64("b"), vp.Float64("c"), vp.Float64("val")
	m := &Matrix3{a, c, 0, c, b, 0, 0, 0, val}
	switch vp.Param("shape") {
	case 1:
		// the xy block does not have val as an eigenvalue: the eigenspace is the z axis
		vp.Assume((a-val)*(b-val)-c*c != 0)
	case 2:
		// val is a double eigenvalue: xy block is singular at val but not zero
		vp.AssumeEq((a-val)*(b-val), c*c)
		vp.Assume(vp.Or(a != val, b != val))
	}
	v := m.symEigVector(val)
	vp.Assert(v.X*v.X+v.Y*v.Y+v.Z*v.Z == 1, "symEigVector returns a unit vector")
	out := m.MulColumn(v)
	vp.Assert(vp.All(out.X == val*v.X, out.Y == val*v.Y, out.Z == val*v.Z), "symEigVector(val) is an eigenvector for val")
	vp.Reach("end")
}

// VP_C06_TransformedSphereSDF: TransformSDF of a sphere's field under a
// composite distance transform is the closed-form field of the image sphere
// (still a Euclidean distance): scale-then-translate, translate-then-scale
// and scale-translate-scale.
func VP_C06_TransformedSphereSDF() {
	s := &Sphere{Center: vpPoint("center"), Radius: vp.Float64("radius")}
	vp.Assume(s.Radius > 0)
	k1, k2 := vp.Float64("scale1"), vp.Float64("scale2")
	vp.Assume(vp.And(k1 > 0, k2 > 0))
	off := vpPoint("off")
	var t JoinedTransform
	var img Coord3D // image of the centre
	var k float64   // total scale
	switch vp.Param("kind") {
	case 0:
		t = JoinedTransform{&Scale{Scale: k1}, &Translate{Offset: off}}
		img, k = s.Center.Scale(k1).Add(off), k1
	case 1:
		t = JoinedTransform{&Translate{Offset: off}, &Scale{Scale: k1}}
		img, k = s.Center.Add(off).Scale(k1), k1
	case 2:
		t = JoinedTransform{&Scale{Scale: k1}, &Translate{Offset: off}, &Scale{Scale: k2}}
		img, k = s.Center.Scale(k1).Add(off).Scale(k2), k1*k2
	}
	f := TransformSDF(t, s)
	q := vpPoint("q")
	d := q.Sub(img)
	v := k*s.Radius - f.SDF(q)
	vp.Assert(vp.And(v >= 0, v*v == d.Dot(d)), "transformed field is (total scale * radius) minus the distance to the image centre")
	vp.Reach("end")
}

// VP_C06_SafeNormal: the normal helper behind the Capsule/Cylinder/Cone
// side normals. For a symbolic non-zero direction d and the invalid (axis)
// direction z: when the part of d perpendicular to the axis is at least 1e-5
// of |d| the result is that part, normalised - whatever the magnitude of d
// (points arbitrarily close to the axis) - otherwise it is the fallback.
func VP_C06_SafeNormal() {
	d := vpPoint("d")
	axis, fallback := Z(1), X(1)
	n2 := d.Dot(d)
	vp.Assume(n2 > 0)
	r := safeNormal(d, fallback, axis)
	p2 := d.X*d.X + d.Y*d.Y // squared norm of the perpendicular part
	l := vp.Float64("perpnorm")
	vp.Assume(l >= 0)
	vp.AssumeEq(l*l, p2)
	if vp.Choice("case", 2) == 0 {
		vp.Assume(p2 > 1.0001e-10*n2)
		vp.Assert(vp.All(r.X*l == d.X, r.Y*l == d.Y, r.Z == 0), "result is the normalised perpendicular part of the direction, at any magnitude")
	} else {
		vp.Assume(p2 < 0.9999e-10*n2)
		vp.Assert(vpEqC(r, fallback), "a direction (numerically) along the axis gives the fallback")
	}
	vp.Reach("end")
}

// VP_C06_CapsuleSDF: a capsule along +z from a symbolic base point with
// symbolic length and radius: the field is the radius minus the distance to
// the axis segment (three regions), its sign agrees with Contains, the
// nearest point is on the surface at the reported distance and the ball test
// is |SDF| <= r.
func VP_C06_CapsuleSDF() {
	p1 := vpPoint("p1")
	h, r := vp.Float64("len"), vp.Float64("radius")
	vp.Assume(vp.And(h > 0.01, r > 0.01))
	cp := &Capsule{P1: p1, P2: p1.Add(Z(h)), Radius: r}
	c := vpPoint("c")
	d := c.Sub(p1)
	var dist2 float64 // squared distance to the axis segment
	switch vp.Param("region") {
	case 0:
		vp.Assume(d.Z < 0)
		dist2 = d.Dot(d)
	case 1:
		vp.Assume(d.Z > h)
		dist2 = d.X*d.X + d.Y*d.Y + (d.Z-h)*(d.Z-h)
	case 2:
		vp.Assume(vp.And(d.Z >= 0, d.Z <= h))
		dist2 = d.X*d.X + d.Y*d.Y
	}
	sdf := cp.SDF(c)
	v := r - sdf
	vp.Assert(vp.And(v >= 0, v*v == dist2), "SDF is the radius minus the distance to the axis segment")
	vp.Assert(cp.Contains(c) == (dist2 <= r*r), "Contains is the closed capsule")
	if vp.Param("point") == 1 {
		vp.Assume(dist2 > 1e-6) // on the axis the nearest point is not unique
		q, sdf2 := cp.PointSDF(c)
		vp.Assert(sdf2 == sdf, "PointSDF reports the same distance")
		vp.Assert(cp.SDF(q) == 0, "nearest point lies on the surface")
		e := c.Sub(q)
		vp.Assert(e.Dot(e) == sdf*sdf, "nearest point is at the reported distance")
	}
	vp.Reach("end")
}
