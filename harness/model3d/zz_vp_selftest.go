//go:build verif

package model3d

import (
	"math"

	"github.com/unixpickle/model3d/internal/vp"
)

// Engine self-tests (not part of any property).

func VP_T_Basic() {
	x := vp.Int("x", 0, 10)
	y := x*2 + 1
	if y > 7 {
		vp.Assert(x >= 4, "x>=4")
	} else {
		vp.Assert(x <= 3, "x<=3")
	}
	vp.Reach("end")
}

func VP_T_Fail() {
	x := vp.Int("x", 0, 10)
	vp.Assert(x*x != 49, "no-seven")
	vp.Reach("end")
}

func VP_T_Float() {
	a := vp.Float64("a")
	b := vp.Float64("b")
	c := XYZ(a, b, 0)
	d := XYZ(b, a, 1)
	mn := c.Min(d)
	vp.Assert(mn.X <= a, "min le a")
	vp.Assert(mn.X <= b, "min le b")
	vp.Assert(math.Abs(a) >= 0, "abs nonneg")
	vp.Reach("end")
}

func VP_T_Real() {
	a := vp.Float64("a")
	b := vp.Float64("b")
	c := XYZ(a, b, 0)
	n := c.Norm()
	vp.Assert(n*n == a*a+b*b, "norm squared")
	vp.Assert(n >= math.Abs(a), "norm ge |a|")
	vp.Reach("end")
}

func VP_T_Map() {
	m := NewCoordMap[int]()
	a := vp.Float64("a")
	m.Store(XYZ(a, 0, 0), 1)
	m.Store(XYZ(1, 0, 0), 2)
	v, ok := m.Load(XYZ(1, 0, 0))
	vp.Assert(ok, "present")
	vp.Assert(v == 2, "value")
	vp.Reach("end")
}
