//go:build verif

package model3d

import (
	"github.com/unixpickle/model3d/internal/vp"
)

// C12 — results do not depend on block splitting, worker count or slab buffering.

// VP_C12_Split: mcBlock.Split on a block with symbolic integer bounds.
func VP_C12_Split() {
	ext := vp.Param("maxExtent")
	var b mcBlock
	for i := 0; i < 3; i++ {
		b.min[i] = vp.Int("min", 0, ext)
		b.max[i] = vp.Int("max", 0, ext)
		vp.Assume(b.min[i] < b.max[i])
	}
	s1, s2 := b.Split()
	ax := -1
	for i := 0; i < 3; i++ {
		if s1.max[i] != b.max[i] {
			ax = i
		}
	}
	longest := 0
	for i := 0; i < 3; i++ {
		if b.max[i]-b.min[i] > longest {
			longest = b.max[i] - b.min[i]
		}
	}
	vp.Assert(s1.min == b.min, "first half starts at the block's min")
	vp.Assert(s2.max == b.max, "second half ends at the block's max")
	if longest >= 2 {
		vp.Assert(ax >= 0, "a block with an extent >= 2 is really cut")
		vp.Assert(b.max[ax]-b.min[ax] == longest, "the cut is along a longest axis")
		vp.Assert(vp.And(s1.max[ax] > b.min[ax], s1.max[ax] < b.max[ax]), "both halves are non-empty")
	}
	for i := 0; i < 3; i++ {
		if i != ax {
			vp.Assert(vp.And(s1.max[i] == b.max[i], s2.min[i] == b.min[i]), "other axes untouched")
		} else {
			vp.Assert(s2.min[i] == s1.max[i], "halves meet at the cut")
		}
	}
	if ax >= 0 {
		vp.Assert((s1.max[ax]-s1.min[ax])+(s2.max[ax]-s2.min[ax]) == b.max[ax]-b.min[ax], "extents along the cut add up")
	}
	vp.Reach("end")
}

// VP_C12_Pieces: Pieces visits every cell of the block exactly once, for a
// symbolic minVolume and an arbitrary (symbolic) filter that may only reject
// blocks (rejected blocks' cells are then not visited at all, never twice).
func VP_C12_Pieces() {
	ex, ey, ez := vp.Param("ex"), vp.Param("ey"), vp.Param("ez")
	b := mcBlock{min: [3]int{1, 2, 3}, max: [3]int{1 + ex, 2 + ey, 3 + ez}}
	minVolume := vp.Concrete(vp.Int("minVolume", 1, vp.Param("maxMinVolume")))
	useFilter := vp.Choice("filter", 2) == 1
	visits := map[[3]int]int{}
	rejected := map[[3]int]bool{}
	b.Pieces(minVolume, func(p *mcBlock) bool {
		if !useFilter {
			return true
		}
		keep := vp.Bool("keep")
		if !keep {
			for x := p.min[0]; x < p.max[0]; x++ {
				for y := p.min[1]; y < p.max[1]; y++ {
					for z := p.min[2]; z < p.max[2]; z++ {
						rejected[[3]int{x, y, z}] = true
					}
				}
			}
		}
		return keep
	}, func(p *mcBlock) {
		for x := p.min[0]; x < p.max[0]; x++ {
			for y := p.min[1]; y < p.max[1]; y++ {
				for z := p.min[2]; z < p.max[2]; z++ {
					visits[[3]int{x, y, z}]++
				}
			}
		}
	})
	for x := b.min[0]; x < b.max[0]; x++ {
		for y := b.min[1]; y < b.max[1]; y++ {
			for z := b.min[2]; z < b.max[2]; z++ {
				c := [3]int{x, y, z}
				if rejected[c] {
					vp.Assert(visits[c] == 0, "cells of a rejected block are not visited")
				} else {
					vp.Assert(visits[c] == 1, "every cell of an accepted region is visited exactly once")
				}
			}
		}
	}
	vp.Assert(len(visits)+len(rejected) == ex*ey*ez, "no cell outside the block is visited")
	vp.Reach("end")
}

// VP_C12_Scan: squareSpacer.Scan hands f every consecutive slab pair exactly
// once, in order, with caches that hold the right slabs, for every worker count.
func VP_C12_Scan() {
	nz := vp.Param("nz")
	l := &vpLatticeSolid{nx: 1, ny: 1, nz: nz, vals: make([]bool, nz)}
	for i := range l.vals {
		l.vals[i] = vp.Bool("inside")
	}
	sp := newSquareSpacer(l, 1)
	vp.Assert(len(sp.Zs) == nz+2, "lattice has one empty layer on each side")
	next := 1
	sp.Scan(l, func(z int, bottom, top *solidCache) {
		vp.Assert(z == next, "slabs are delivered in order, each once")
		next++
		for y := 0; y < len(sp.Ys); y++ {
			for x := 0; x < len(sp.Xs); x++ {
				vp.Assert(bottom.Get(x, y) == l.Contains(sp.CornerCoord(x, y, z-1)), "bottom cache holds slab z-1")
				vp.Assert(top.Get(x, y) == l.Contains(sp.CornerCoord(x, y, z)), "top cache holds slab z")
			}
		}
	})
	vp.Assert(next == len(sp.Zs), "every slab pair was delivered")
	vp.Reach("end")
}

// VP_C12_BlockBounds: the box handed to region filters encloses every lattice
// point of the block.
func VP_C12_BlockBounds() {
	n := vp.Param("n")
	sp := &squareSpacer{}
	for i := 0; i < n; i++ {
		sp.Xs = append(sp.Xs, vp.Float64("x"))
		sp.Ys = append(sp.Ys, vp.Float64("y"))
		sp.Zs = append(sp.Zs, vp.Float64("z"))
		if i > 0 {
			vp.Assume(vp.All(sp.Xs[i-1] < sp.Xs[i], sp.Ys[i-1] < sp.Ys[i], sp.Zs[i-1] < sp.Zs[i]))
		}
	}
	b := mcBlock{spacer: sp}
	for i := 0; i < 3; i++ {
		b.min[i] = vp.Int("min", 0, n-1)
		b.max[i] = vp.Int("max", 0, n-1)
		vp.Assume(b.min[i] < b.max[i])
	}
	eps := vp.Float64("eps")
	vp.Assume(eps >= 0)
	r := b.Bounds(eps)
	ix, iy, iz := vp.Int("ix", 0, n-1), vp.Int("iy", 0, n-1), vp.Int("iz", 0, n-1)
	vp.Assume(vp.All(ix >= b.min[0], ix <= b.max[0], iy >= b.min[1], iy <= b.max[1], iz >= b.min[2], iz <= b.max[2]))
	px, py, pz := sp.Xs[ix], sp.Ys[iy], sp.Zs[iz]
	vp.Assert(vp.All(r.MinVal.X <= px, px <= r.MaxVal.X, r.MinVal.Y <= py, py <= r.MaxVal.Y, r.MinVal.Z <= pz, pz <= r.MaxVal.Z), "block bounds enclose every lattice point of the block")
	vp.Reach("end")
}

// VP_C12_DCBuffer: dual contouring gives the same faces whatever the slab
// buffer size (every BufRows from the minimum of 4 up to the whole lattice,
// selected through a symbolic BufferSize) and whatever MaxGos; the result is
// a closed oriented manifold. The solid is a box tall enough in z that small
// buffers need several window shifts.
func VP_C12_DCBuffer() {
	solid := NewRect(XYZ(-0.43, -0.37, -0.9), XYZ(0.41, 0.33, 1.2))
	switch vp.Param("shape") {
	case 1: // more lattice columns than rows
		solid = NewRect(XYZ(-0.43, -0.37, -0.9), XYZ(1.41, 0.33, 1.2))
	case 2: // more rows than columns
		solid = NewRect(XYZ(-0.43, -0.37, -0.9), XYZ(0.41, 1.33, 1.2))
	}
	layout := newDcCubeLayout(solid.Min(), solid.Max(), 0.5, true, 0)
	perSlab := len(layout.Xs) * len(layout.Ys)
	if vp.Param("shape") == 1 {
		vp.Assert(len(layout.Xs) > len(layout.Ys), "lattice is wider than deep")
	} else if vp.Param("shape") == 2 {
		vp.Assert(len(layout.Xs) < len(layout.Ys), "lattice is deeper than wide")
	}
	mk := func(buf, gos int) *Mesh {
		dc := &DualContouring{
			S:          SolidSurfaceEstimator{Solid: solid},
			Delta:      0.5,
			NoJitter:   true,
			MaxGos:     gos,
			BufferSize: buf,
			Clip:       true,
		}
		return dc.Mesh()
	}
	ref := mk(0, 1)
	vp.Assert(ref.NumTriangles() > 0, "reference mesh is not empty")
	vp.Assert(!ref.NeedsRepair() && len(ref.InconsistentEdges()) == 0, "dual contouring output is a closed oriented manifold")
	// lattice is nx x ny x 7 points; BufRows = clamp(buf/(nx*ny), 4, 7)
	rows := vp.Int("bufRows", 1, 8)
	gos := vp.Int("maxGos", 1, 3)
	got := mk(vp.Concrete(rows)*perSlab, vp.Concrete(gos))
	vp.Assert(got.NumTriangles() == ref.NumTriangles(), "same number of faces for every buffer size and MaxGos")
	same := true
	got.Iterate(func(t *Triangle) {
		if len(ref.Find(t[0], t[1], t[2])) != 1 {
			same = false
		}
	})
	vp.Assert(same, "same faces for every buffer size and MaxGos")
	vp.Reach("end")
}

// vpMCRootDivisor replaces the constant 4096 in MarchingCubesFilter (source
// cut, see /verif/cuts.json); the default keeps the behaviour unchanged.
var vpMCRootDivisor = 4096

// VP_C12_FilterE2E: the real MarchingCubesFilter driver, with the root block
// queued whole so that the workers re-split it (more than 64 cells), gives
// the same faces as MarchingCubes for every conservative filter: the filter
// answers true for every block whose cells contain surface and an arbitrary
// (symbolic) answer for every other block, at both splitting levels.
func VP_C12_FilterE2E() {
	old := vpMCRootDivisor
	vpMCRootDivisor = 1
	defer func() { vpMCRootDivisor = old }()

	nx, ny, nz := vp.Param("nx"), vp.Param("ny"), vp.Param("nz")
	l := &vpLatticeSolid{nx: nx, ny: ny, nz: nz, vals: make([]bool, nx*ny*nz)}
	// a small blob in one corner (pattern 0) or two separate points (pattern 1)
	l.vals[0] = true
	if vp.Param("pattern") == 1 {
		l.vals[len(l.vals)-1] = true
	} else if nx > 1 {
		l.vals[1] = true
	}
	vp.Assert((nx+1)*(ny+1)*(nz+1) > 64, "more than 64 cells: the workers re-split the queued block")
	ref := MarchingCubes(l, 1)
	hasSurface := func(r *Rect) bool {
		// cells are unit cubes with integer corners from -1 to n
		for z := -1; z < nz; z++ {
			for y := -1; y < ny; y++ {
				for x := -1; x < nx; x++ {
					lo, hi := XYZ(float64(x), float64(y), float64(z)), XYZ(float64(x+1), float64(y+1), float64(z+1))
					if lo.X < r.MinVal.X-0.5 || lo.Y < r.MinVal.Y-0.5 || lo.Z < r.MinVal.Z-0.5 ||
						hi.X > r.MaxVal.X+0.5 || hi.Y > r.MaxVal.Y+0.5 || hi.Z > r.MaxVal.Z+0.5 {
						continue
					}
					first := l.Contains(lo)
					for c := 1; c < 8; c++ {
						p := XYZ(float64(x+c&1), float64(y+(c>>1)&1), float64(z+(c>>2)&1))
						if l.Contains(p) != first {
							return true
						}
					}
				}
			}
		}
		return false
	}
	got := MarchingCubesFilter(l, func(r *Rect) bool {
		if hasSurface(r) {
			return true
		}
		return vp.Bool("filter keeps a block without surface")
	}, 1)
	vp.Assert(len(ref.TriangleSlice()) > 0, "reference mesh is not empty")
	vp.Assert(vpSameFaces(ref, got), "MarchingCubesFilter gives the faces of MarchingCubes for every conservative filter")
	vp.Reach("end")
}
