//go:build verif

package model3d

import (
	"sync"

	"github.com/unixpickle/model3d/internal/vp"
)

// C13 — concurrent read-only use is race-free and matches sequential use.
// vp.ExploreSchedules() makes the engine enumerate every interleaving of the
// goroutines at synchronisation granularity and check plain memory accesses
// with a happens-before (vector clock) analysis.

func vpSmallMesh() (*Mesh, []*Triangle) {
	a, b, c, d := XYZ(0, 0, 0), XYZ(1, 0, 0), XYZ(0, 1, 0), XYZ(1, 1, 0)
	t1, t2 := &Triangle{a, b, c}, &Triangle{b, d, c}
	m := NewMesh()
	m.Add(t1)
	m.Add(t2)
	return m, []*Triangle{t1, t2}
}

// reader kinds: 0 Find(vertex) 1 Neighbors 2 VertexSlice 3 Iterate+Contains 4 Find(edge) 5 getVertexToFace
func vpMeshQuery(m *Mesh, tris []*Triangle, kind int) int {
	switch kind {
	case 0:
		return len(m.Find(tris[0][1]))
	case 1:
		return len(m.Neighbors(tris[0]))
	case 2:
		return len(m.VertexSlice())
	case 3:
		n := 0
		m.Iterate(func(t *Triangle) {
			if m.Contains(t) {
				n++
			}
		})
		return n
	case 4:
		return len(m.Find(tris[0][1], tris[0][2]))
	case 5:
		// the lazy index construction itself
		return m.getVertexToFace().Len()
	}
	panic("bad kind")
}

// VP_C13_MeshReaders: two goroutines query one mesh whose vertex index has
// not been built yet (the first queries build it lazily): no data race in any
// interleaving, and both get the sequential answers.
func VP_C13_MeshReaders() {
	k1, k2 := vp.Param("k1"), vp.Param("k2")
	ref, rtris := vpSmallMesh()
	want1, want2 := vpMeshQuery(ref, rtris, k1), vpMeshQuery(ref, rtris, k2)

	m, tris := vpSmallMesh()
	var got [2]int
	var wg sync.WaitGroup
	vp.ExploreSchedules()
	wg.Add(2)
	go func() {
		defer wg.Done()
		got[0] = vpMeshQuery(m, tris, k1)
	}()
	go func() {
		defer wg.Done()
		got[1] = vpMeshQuery(m, tris, k2)
	}()
	wg.Wait()
	vp.Assert(got[0] == want1 && got[1] == want2, "concurrent readers get the sequential answers")
	vp.Reach("end")
}

// VP_C13_ColliderReaders: two goroutines cast rays / balls against one mesh
// collider and one mesh SDF.
func VP_C13_ColliderReaders() {
	// two triangles with disjoint bounding boxes, so that the hierarchy's
	// "nearer child first" decision differs between the two query points
	m := NewMesh()
	m.Add(&Triangle{XYZ(0, 0, 0), XYZ(1, 0, 0), XYZ(0, 1, 0)})
	m.Add(&Triangle{XYZ(3, 0, 0), XYZ(4, 0, 0), XYZ(3, 1, 0)})
	coll := MeshToCollider(m)
	sdf := MeshToSDF(m)
	ray := &Ray{Origin: XYZ(0.2, 0.2, 1), Direction: Z(-1)}
	wantN := coll.RayCollisions(ray, nil)
	// two query points on opposite sides of the hierarchy's split, so that
	// the two goroutines descend the tree in different orders
	qs := [2]Coord3D{XYZ(0.2, 0.2, 0.5), XYZ(3.2, 0.2, 0.5)}
	wantD := [2]float64{sdf.SDF(qs[0]), sdf.SDF(qs[1])}
	var gotN [2]int
	var gotD [2]float64
	var wg sync.WaitGroup
	vp.ExploreSchedules()
	for i := 0; i < 2; i++ {
		wg.Add(1)
		go func(i int) {
			defer wg.Done()
			gotN[i] = coll.RayCollisions(ray, nil)
			_, _ = coll.FirstRayCollision(ray)
			_ = coll.SphereCollision(XYZ(0.5, 0.5, 0), 0.1)
			gotD[i] = sdf.SDF(qs[i])
		}(i)
	}
	wg.Wait()
	vp.Assert(gotN[0] == wantN && gotN[1] == wantN, "concurrent ray casts get the sequential answer")
	vp.Assert(gotD[0] == wantD[0] && gotD[1] == wantD[1], "concurrent SDF queries get the sequential answers")
	vp.Reach("end")
}

// VP_C13_DCInterior: the edge stage of dual contouring (index-partitioned
// concurrent map; per-worker interior-point buffers merged under a lock) does
// not race in any interleaving of its workers, and the interior list does not
// depend on the worker count. The corner stage before it runs under one
// schedule (same concurrent-map helper).
func VP_C13_DCInterior() {
	solid := NewRect(XYZ(-0.3, -0.3, -0.3), XYZ(0.3, 0.3, 0.3))
	run := func(gos int, explore bool) []Coord3D {
		dc := &DualContouring{S: SolidSurfaceEstimator{Solid: solid, BisectCount: 2, NormalBisectEpsilon: 1e-3}, Delta: 0.5, NoJitter: true, MaxGos: gos, Clip: true}
		layout := newDcCubeLayout(solid.Min(), solid.Max(), dc.Delta, dc.NoJitter, dc.BufferSize)
		dc.populateCorners(layout)
		if explore {
			vp.ExploreSchedules()
		}
		var interior []Coord3D
		dc.populateEdges(layout, &interior)
		return interior
	}
	want := run(1, false)
	got := run(vp.Param("gos"), true)
	vp.Assert(len(want) > 0, "the sequential run reports interior points")
	vp.Assert(len(got) == len(want), "same number of interior points as the sequential run")
	cnt := map[Coord3D]int{}
	for _, p := range want {
		cnt[p]++
	}
	for _, p := range got {
		cnt[p]--
	}
	same := true
	for _, v := range cnt {
		if v != 0 {
			same = false
		}
	}
	vp.Assert(same, "same interior points as the sequential run")
	vp.Reach("end")
}
