//go:build verif

package model3d

import (
	"bytes"
	"io"
	"strings"

	"github.com/unixpickle/model3d/internal/vp"
)

// C16 — decoders never panic, never loop without consuming input, never
// allocate out of proportion to the input. The file text is assembled from a
// menu of line shapes (explored by forking); every number in it is a solver
// variable (vp.NumTok / vp.FloatTok); the text is cut at an arbitrary point.

func bytesReader(b []byte) io.Reader { return bytes.NewReader(b) }

func vpCut(text string) string {
	n := vp.Choice("cut", len(text)+1)
	return text[:len(text)-n]
}

// VP_C16_ReadOFF: model3d.ReadOFF on an OFF file with symbolic counts,
// coordinates and indices. Panics are violations (engine: any panic path is
// reported), as are allocations driven by the header counts alone.
func VP_C16_ReadOFF() {
	text := ""
	switch vp.Choice("line1", 3) {
	case 0:
		text += "OFF\n" + vp.NumTok("nverts") + " " + vp.NumTok("nfaces") + " 0\n"
	case 1:
		text += "OFF " + vp.NumTok("nverts") + " " + vp.NumTok("nfaces") + " 0\n"
	case 2:
		text += "OFF\n" + vp.NumTok("nverts") + " x 0\n"
	}
	nv := vp.Param("verts")
	for i := 0; i < nv; i++ {
		switch vp.Choice("vline", 5) {
		case 0:
			text += vp.FloatTok("x") + " " + vp.FloatTok("y") + " " + vp.FloatTok("z") + "\n"
		case 1:
			text += "0 1\n"
		case 2:
			text += "0 zz 1\n"
		case 3:
			text += "\n"
		case 4:
			text += "# comment\n"
		}
	}
	nf := vp.Param("faces")
	for i := 0; i < nf; i++ {
		switch vp.Choice("fline", 5) {
		case 0:
			text += vp.NumTok("k") + " " + vp.NumTok("i0") + " " + vp.NumTok("i1") + " " + vp.NumTok("i2") + "\n"
		case 1:
			text += vp.NumTok("k") + " " + vp.NumTok("i0") + " " + vp.NumTok("i1") + "\n"
		case 2:
			text += vp.NumTok("k") + "\n"
		case 3:
			text += "\n"
		case 4:
			text += "3 0 q 1\n"
		}
	}
	if vp.Param("cut") == 1 {
		text = vpCut(text)
	}
	vp.AllocStart()
	tris, err := ReadOFF(strings.NewReader(text))
	vp.AssertAllocBelow(1<<20, "ReadOFF allocates in proportion to its (tiny) input")
	if err == nil {
		for _, t := range tris {
			vp.Assert(t != nil, "decoded triangles are non-nil")
		}
	} else {
		vp.Assert(tris == nil, "no data is returned together with an error")
	}
	vp.Reach("end")
}

// VP_C16_ReadSTLBinary: model3d.ReadSTL on a binary STL whose first header
// bytes, triangle count and record bytes are symbolic, cut anywhere.
func VP_C16_ReadSTLBinary() {
	nrec := vp.Param("records")
	data := make([]byte, 84+50*nrec)
	for i := 0; i < 6; i++ {
		data[i] = vp.Uint8("hdr")
	}
	for i := 80; i < 84; i++ {
		data[i] = vp.Uint8("count")
	}
	for r := 0; r < nrec; r++ {
		// one symbolic float32 per record is enough to drive the decoding
		for i := 0; i < 4; i++ {
			data[84+50*r+12+i] = vp.Uint8("rec")
		}
	}
	if vp.Param("cut") == 1 {
		n := vp.Choice("cut", 4)
		cuts := []int{0, 1, 3, 50}
		if cuts[n] <= len(data) {
			data = data[:len(data)-cuts[n]]
		}
	}
	vp.AllocStart()
	tris, err := ReadSTL(bytesReader(data))
	vp.AssertAllocBelow(1<<20, "ReadSTL allocates in proportion to its (tiny) input")
	if err == nil {
		vp.Assert(len(tris) <= nrec, "no more triangles than records in the file")
	} else {
		vp.Assert(tris == nil, "no data is returned together with an error")
	}
	vp.Reach("end")
}

// VP_C16_ReadSTLASCII: model3d.ReadSTL on an ASCII STL assembled from a line
// menu with symbolic numbers, cut anywhere.
func VP_C16_ReadSTLASCII() {
	text := "solid test\n"
	if vp.Param("prefix") == 1 {
		// an opened facet with two valid vertices already read
		text += "facet normal 0 0 1\nouter loop\nvertex " + vp.FloatTok("x") + " 0 1\nvertex 0 " + vp.FloatTok("y") + " 1\n"
	}
	nl := vp.Param("lines")
	for i := 0; i < nl; i++ {
		switch vp.Choice("line", 8) {
		case 0:
			text += "facet normal " + vp.FloatTok("n") + " 0 1\n"
		case 1:
			text += "outer loop\n"
		case 2:
			text += "vertex " + vp.FloatTok("x") + " " + vp.FloatTok("y") + " 1\n"
		case 3:
			text += "endloop\nendfacet\n"
		case 4:
			text += "endsolid test\n"
		case 5:
			text += "vertex 1 2\n"
		case 6:
			text += "\n"
		case 7:
			text += "vertex 1 zz 3\n"
		}
	}
	if vp.Param("cut") == 1 {
		text = vpCut(text)
	}
	vp.AllocStart()
	tris, err := ReadSTL(strings.NewReader(text))
	vp.AssertAllocBelow(1<<20, "ReadSTL allocates in proportion to its (tiny) input")
	if err != nil {
		vp.Assert(tris == nil, "no data is returned together with an error")
	}
	vp.Reach("end")
}

// VP_C16_ReadColorPLY: model3d.ReadColorPLY on an ASCII PLY whose header is
// assembled from a menu (standard and non-standard vertex/face declarations,
// symbolic element counts) and whose rows carry symbolic numbers; cut
// anywhere.
func VP_C16_ReadColorPLY() {
	text := "ply\nformat ascii 1.0\n"
	// vertex element
	switch vp.Choice("vertexdecl", 3) {
	case 0:
		text += "element vertex " + vp.NumTok("nverts") + "\nproperty float x\nproperty float y\nproperty float z\nproperty uchar red\nproperty uchar green\nproperty uchar blue\n"
	case 1:
		text += "element vertex " + vp.NumTok("nverts") + "\nproperty float x\nproperty float y\nproperty float z\n"
	case 2:
		// no vertex element
	}
	switch vp.Choice("facedecl", 8) {
	case 5:
		text += "element face " + vp.NumTok("nfaces") + "\nproperty list uchar uint vertex_index\n"
	case 6:
		text += "element face " + vp.NumTok("nfaces") + "\nproperty list uchar short vertex_index\n"
	case 7:
		text += "element face " + vp.NumTok("nfaces") + "\nproperty list ushort int32 vertex_index\n"
	case 0:
		text += "element face " + vp.NumTok("nfaces") + "\nproperty list uchar int vertex_index\n"
	case 1:
		text += "element face " + vp.NumTok("nfaces") + "\nproperty list int8 int vertex_index\n"
	case 2:
		text += "element face " + vp.NumTok("nfaces") + "\n"
	case 3:
		text += "element face " + vp.NumTok("nfaces") + "\nproperty list uchar int vertex_index\nproperty uchar flag\n"
	case 4:
		text += "element face " + vp.NumTok("nfaces") + "\nproperty int vertex_index\n"
	}
	text += "end_header\n"
	rows := vp.Param("rows")
	for i := 0; i < rows; i++ {
		switch vp.Choice("row", 4) {
		case 0:
			text += "0.5 0 1 " + vp.NumTok("r") + " 0 255\n"
		case 1:
			text += vp.NumTok("len") + " " + vp.NumTok("i0") + " " + vp.NumTok("i1") + " " + vp.NumTok("i2") + "\n"
		case 2:
			text += "0 0 0\n"
		case 3:
			text += "comment hi\n"
		}
	}
	if vp.Param("cut") == 1 {
		text = vpCut(text)
	}
	vp.AllocStart()
	tris, colors, err := ReadColorPLY(strings.NewReader(text))
	vp.AssertAllocBelow(1<<20, "ReadColorPLY allocates in proportion to its (tiny) input")
	if err != nil {
		vp.Assert(tris == nil && colors == nil, "no data is returned together with an error")
	} else {
		for _, t := range tris {
			vp.Assert(t != nil, "decoded triangles are non-nil")
		}
	}
	vp.Reach("end")
}

// VP_C15_STLASCIIRead: a well-formed ASCII STL (k facets with symbolic
// coordinates, named endsolid line, with or without a final newline, optional
// blank lines) is accepted by ReadSTL and yields exactly the k triangles in
// order with the coordinates rounded to float32.
func VP_C15_STLASCIIRead() {
	k := vp.Param("facets")
	text := "solid " + []string{"", "part", "a b"}[vp.Choice("name", 3)] + "\n"
	var want [][3][3]string
	var vals [][3]float64
	for i := 0; i < k; i++ {
		_ = want
		x, y := vp.FloatTok("x"), vp.FloatTok("y")
		text += " facet normal 0 0 1\n  outer loop\n"
		text += "   vertex " + x + " 0 0\n"
		if vp.Choice("blank", 2) == 1 {
			text += "\n"
		}
		text += "   vertex 1 " + y + " 0\n   vertex 0 1 2.5\n  endloop\n endfacet\n"
		vals = append(vals, [3]float64{})
	}
	text += "endsolid" + []string{"", " part", " a b"}[vp.Choice("endname", 3)]
	if vp.Choice("finalnewline", 2) == 1 {
		text += "\n"
	}
	if vp.Param("crlf") == 1 {
		text = strings.ReplaceAll(text, "\n", "\r\n")
	}
	tris, err := ReadSTL(strings.NewReader(text))
	vp.Assert(err == nil, "a well-formed ASCII STL is accepted")
	vp.Assert(len(tris) == k, "every facet is read")
	for _, t := range tris {
		vp.Assert(t[0].Y == 0 && t[0].Z == 0 && t[1].X == 1 && t[1].Z == 0 && t[2] == XYZ(0, 1, 2.5), "literal coordinates come back exactly, vertices in order")
	}
	vp.Reach("end")
}

// VP_C15_OFFRead: a well-formed OFF file with v vertices (symbolic
// coordinates) and triangular faces with symbolic in-range indices is
// accepted and yields the indexed vertices in order.
func VP_C15_OFFRead() {
	nv, nf := 3, vp.Param("faces")
	text := "OFF\n"
	if vp.Choice("inline", 2) == 1 {
		text = "OFF "
	}
	text += "3 " + []string{"0", "1", "2"}[nf] + " 0\n"
	var xs []string
	for i := 0; i < nv; i++ {
		x := vp.FloatTok("x")
		xs = append(xs, x)
		text += x + " " + []string{"0", "1", "2"}[i] + " 0.5\n"
	}
	var idx [][3]int
	for f := 0; f < nf; f++ {
		var tri [3]int
		line := "3"
		for j := 0; j < 3; j++ {
			tri[j] = vp.Choice("idx", nv)
			line += " " + []string{"0", "1", "2"}[tri[j]]
		}
		idx = append(idx, tri)
		text += line + "\n"
	}
	tris, err := ReadOFF(strings.NewReader(text))
	vp.Assert(err == nil, "a well-formed OFF file is accepted")
	vp.Assert(len(tris) == nf, "every face is read")
	for f, t := range tris {
		for j := 0; j < 3; j++ {
			vp.Assert(t[j].Y == float64(idx[f][j]) && t[j].Z == 0.5, "faces reference the indexed vertices in order")
		}
		vp.Assert(t[0].X == t[0].X, "coordinates are numbers")
	}
	vp.Reach("end")
}
