//go:build verif

package model3d

import (
	"math"

	"github.com/unixpickle/model3d/internal/vp"
)

// C09 — coordinate-keyed maps behave like maps; a mesh answers as the set of
// its faces.

// VP_C09_HashCongruence: keys that are equal under Go's == hash equally, so
// the fast map and an ordinary map agree on what "the same key" is. Per
// component the two keys either share one symbolic float or are the two zeros
// of opposite sign (for non-NaN doubles these are all the ways a == b holds).
func VP_C09_HashCongruence() {
	var a, b [3]float64
	negZero := math.Copysign(0, -1)
	for i := 0; i < 3; i++ {
		switch vp.Choice("case", 3) {
		case 0:
			x := vp.Float64("x")
			a[i], b[i] = x, x
		case 1:
			a[i], b[i] = 0, negZero
		case 2:
			a[i], b[i] = negZero, 0
		}
	}
	k1, k2 := NewCoord3DArray(a), NewCoord3DArray(b)
	vp.Assert(k1 == k2, "the two keys are equal under ==")
	vp.Assert(k1.fastHash64() == k2.fastHash64(), "==-equal coordinates have equal 64-bit hashes")
	vp.Assert(k1.fastHash() == k2.fastHash(), "==-equal coordinates have equal 32-bit hashes")
	vp.Reach("end")
}

// The key pool of the map/mesh history harnesses: a pair that really collides
// in fastHash64 (c1*c2 == c2*c1), a pair of ==-equal zero vectors with
// different sign bits, and an unrelated key.
const (
	vpHashC1 = 0.78378384728594870293
	vpHashC2 = 0.12938729312040294193
)

func vpKeyPool() []Coord3D {
	nz := math.Copysign(0, -1)
	return []Coord3D{
		XYZ(vpHashC2, 0, 0),
		XYZ(0, vpHashC1, 0),
		XYZ(1, 2, 3),
		XYZ(0, 0, 0),
		XYZ(nz, nz, nz),
	}
}

// canonical index of a pool key under == (the two zero vectors are one key)
func vpCanon(i int) int {
	if i == 4 {
		return 3
	}
	return i
}

// VP_C09_MapADT: CoordMap / CoordToSlice / CoordToNumber run side by side
// with an ordinary Go map over every op sequence of the given length; every
// observable agrees. Op kinds and keys are explored by forking, stored values
// are symbolic.
func VP_C09_MapADT() {
	steps := vp.Param("steps")
	pool := vpKeyPool()
	vp.Assert(pool[0].fastHash64() == pool[1].fastHash64() && pool[0] != pool[1], "pool contains a genuine hash collision")
	vp.Assert(pool[3] == pool[4], "pool contains ==-equal keys with different sign bits")

	cm := NewCoordMap[int]()
	cs := NewCoordToSlice[int]()
	cn := NewCoordToNumber[int]()
	refM := map[int]int{}
	refS := map[int][]int{}
	refN := map[int]int{}
	for s := 0; s < steps; s++ {
		ki := vp.Choice("key", len(pool))
		k, ck := pool[ki], vpCanon(ki)
		switch vp.Choice("op", 4) {
		case 0: // store
			v := vp.AnyInt("v")
			cm.Store(k, v)
			refM[ck] = v
			cs.Store(k, []int{v})
			refS[ck] = []int{v}
			cn.Store(k, v)
			refN[ck] = v
		case 1: // delete
			cm.Delete(k)
			delete(refM, ck)
			cs.Delete(k)
			delete(refS, ck)
			cn.Delete(k)
			delete(refN, ck)
		case 2: // append / add
			v := vp.AnyInt("v")
			got := cs.Append(k, v)
			refS[ck] = append(refS[ck], v)
			vp.Assert(len(got) == len(refS[ck]), "Append returns the new slice")
			sum := cn.Add(k, v)
			refN[ck] += v
			vp.Assert(sum == refN[ck], "Add returns the new sum")
		case 3: // no-op (queries only)
		}
		// observables after every step
		vp.Assert(cm.Len() == len(refM), "CoordMap.Len equals the map's size")
		vp.Assert(cs.Len() == len(refS), "CoordToSlice.Len equals the map's size")
		vp.Assert(cn.Len() == len(refN), "CoordToNumber.Len equals the map's size")
		for qi, q := range pool {
			cq := vpCanon(qi)
			v, ok := cm.Load(q)
			rv, rok := refM[cq]
			vp.Assert(ok == rok, "CoordMap.Load finds exactly the stored keys")
			if ok && rok {
				vp.Assert(v == rv, "CoordMap.Load returns the stored value")
			}
			sv, sok := cs.Load(q)
			rs, rsok := refS[cq]
			vp.Assert(sok == rsok && len(sv) == len(rs), "CoordToSlice.Load finds exactly the stored keys")
			for i := range rs {
				if i < len(sv) {
					vp.Assert(sv[i] == rs[i], "CoordToSlice.Load returns the stored slice")
				}
			}
			nv, nok := cn.Load(q)
			rn, rnok := refN[cq]
			vp.Assert(nok == rnok, "CoordToNumber.Load finds exactly the stored keys")
			if nok && rnok {
				vp.Assert(nv == rn, "CoordToNumber.Load returns the stored value")
			}
		}
		cnt, total := 0, 0
		cm.Range(func(k Coord3D, v int) bool {
			cnt++
			total += v
			return true
		})
		rtotal := 0
		for _, v := range refM {
			rtotal += v
		}
		vp.Assert(cnt == len(refM), "Range visits every entry once")
		vp.Assert(total == rtotal, "Range visits the stored values")
		vp.Assert((cm.fastMap == nil) != (cm.slowMap == nil), "exactly one of the fast and slow maps is active")
	}
	vp.Reach("end")
}

// triangle pool for the mesh history harness: shared edge, exact duplicate
// (different pointer), degenerate faces with every repeated-corner pattern, a
// face on the colliding / signed-zero keys.
func vpTrianglePool() []*Triangle {
	pool := vpKeyPool()
	a, b, c, d := XYZ(0, 0, 1), XYZ(1, 0, 1), XYZ(0, 1, 1), XYZ(1, 1, 1)
	return []*Triangle{
		{a, b, c},
		{b, d, c},
		{a, b, c},
		{a, a, d},
		{pool[0], pool[1], pool[3]},
		{pool[4], pool[1], c},
		{a, d, d},
		{d, a, d},
	}
}

func vpSameFaceSet(a, b []*Triangle) bool {
	if len(a) != len(b) {
		return false
	}
	for _, x := range a {
		found := false
		for _, y := range b {
			if x == y {
				found = true
			}
		}
		if !found {
			return false
		}
	}
	return true
}

func vpHasVertex(f *Triangle, p Coord3D) bool {
	return f[0] == p || f[1] == p || f[2] == p
}

// vpCheckMeshAgainstFaces compares every query of m with its definition over
// the expected face list (computed by brute force, not by the mesh code).
func vpCheckMeshAgainstFaces(m *Mesh, faces []*Triangle, pool []*Triangle) {
	vp.Assert(m.NumTriangles() == len(faces), "NumTriangles equals the number of current faces")
	for _, t := range pool {
		in := false
		for _, f := range faces {
			if f == t {
				in = true
			}
		}
		vp.Assert(m.Contains(t) == in, "Contains answers for the current faces")
	}
	vp.Assert(vpSameFaceSet(m.TriangleSlice(), faces), "TriangleSlice lists the current faces")
	verts := map[Coord3D]bool{}
	for _, t := range pool {
		for _, p := range t {
			verts[p] = true
		}
	}
	for p := range verts {
		var want []*Triangle
		for _, f := range faces {
			if vpHasVertex(f, p) {
				want = append(want, f)
			}
		}
		vp.Assert(vpSameFaceSet(m.Find(p), want), "Find(vertex) is exactly the faces at that vertex, each once")
	}
	for _, t := range pool {
		var wantEdge, wantNb []*Triangle
		for _, f := range faces {
			if vpHasVertex(f, t[0]) && vpHasVertex(f, t[1]) {
				wantEdge = append(wantEdge, f)
			}
			shared := 0
			for _, p := range t {
				if vpHasVertex(f, p) {
					shared++
				}
			}
			if f != t && shared >= 2 {
				wantNb = append(wantNb, f)
			}
		}
		vp.Assert(vpSameFaceSet(m.Find(t[0], t[1]), wantEdge), "Find(edge) is exactly the faces containing both points, each once")
		vp.Assert(vpSameFaceSet(m.Neighbors(t), wantNb), "Neighbors is exactly the other faces sharing two corners")
	}
	var wantVerts []Coord3D
	for _, f := range faces {
		for _, p := range f {
			dup := false
			for _, q := range wantVerts {
				if q == p {
					dup = true
				}
			}
			if !dup {
				wantVerts = append(wantVerts, p)
			}
		}
	}
	mv := m.VertexSlice()
	vp.Assert(len(mv) == len(wantVerts), "VertexSlice has one entry per distinct vertex")
	for _, v := range mv {
		found := false
		for _, w := range wantVerts {
			if v == w {
				found = true
			}
		}
		vp.Assert(found, "VertexSlice lists vertices of the current faces only")
	}
	if len(faces) > 0 {
		mn, mx := faces[0][0], faces[0][0]
		for _, f := range faces {
			for _, p := range f {
				mn, mx = mn.Min(p), mx.Max(p)
			}
		}
		vp.Assert(m.Min() == mn && m.Max() == mx, "Min/Max are the extremes over the current faces")
	}
}

// VP_C09_MeshHistory: after every op of every history of the given length
// (Add / Remove of pool faces, index-building queries at any point, AddMesh,
// Copy) the mesh answers like a freshly built mesh of its current faces.
func VP_C09_MeshHistory() {
	steps := vp.Param("steps")
	pool := vpTrianglePool()
	m := NewMesh()
	var faces []*Triangle
	has := func(t *Triangle) bool {
		for _, f := range faces {
			if f == t {
				return true
			}
		}
		return false
	}
	for s := 0; s < steps; s++ {
		switch vp.Choice("op", 5) {
		case 0:
			t := pool[vp.Choice("tri", len(pool))]
			m.Add(t)
			if !has(t) {
				faces = append(faces, t)
			}
		case 1:
			t := pool[vp.Choice("tri", len(pool))]
			m.Remove(t)
			for i, f := range faces {
				if f == t {
					faces = append(append([]*Triangle{}, faces[:i]...), faces[i+1:]...)
					break
				}
			}
		case 2:
			m.Find(pool[0][0]) // builds the vertex index
		case 3:
			other := NewMeshTriangles([]*Triangle{pool[1], pool[4]})
			m.AddMesh(other)
			for _, t := range []*Triangle{pool[1], pool[4]} {
				if !has(t) {
					faces = append(faces, t)
				}
			}
		case 4:
			m = m.Copy()
		}
		vpCheckMeshAgainstFaces(m, faces, pool)
	}
	vp.Reach("end")
}

// VP_C09_Derived: derived meshes contain exactly the mapped faces;
// InvertNormals reverses every face and is an involution. The faces come from the
// pool (shared/duplicate/degenerate/colliding vertices), the translation
// offset is symbolic.
func VP_C09_Derived() {
	n := vp.Param("n")
	var tris []*Triangle
	m := NewMesh()
	pool := vpTrianglePool()
	for i := 0; i < n; i++ {
		tris = append(tris, pool[i])
		m.Add(pool[i])
	}
	if vp.Choice("indexBuilt", 2) == 1 {
		m.Find(pool[0][0])
	}
	hasFace := func(mm *Mesh, f Triangle) bool {
		found := false
		mm.Iterate(func(t *Triangle) {
			found = vp.Or(found, *t == f)
		})
		return found
	}
	inv := m.InvertNormals()
	vp.Assert(inv.NumTriangles() == n, "InvertNormals keeps the number of faces")
	for _, t := range tris {
		vp.Assert(hasFace(inv, Triangle{t[1], t[0], t[2]}), "InvertNormals contains every face reversed")
	}
	back := inv.InvertNormals()
	vp.Assert(back.NumTriangles() == n, "InvertNormals twice keeps the number of faces")
	for _, t := range tris {
		vp.Assert(hasFace(back, *t), "InvertNormals is an involution")
	}
	off := vpPoint("off")
	tr := m.Translate(off)
	vp.Assert(tr.NumTriangles() == n, "Translate keeps the number of faces")
	for _, t := range tris {
		vp.Assert(hasFace(tr, Triangle{t[0].Add(off), t[1].Add(off), t[2].Add(off)}), "Translate maps every face")
	}
	dc := m.DeepCopy()
	vp.Assert(dc.NumTriangles() == n, "DeepCopy keeps the number of faces")
	for _, t := range tris {
		vp.Assert(hasFace(dc, *t) && !dc.Contains(t), "DeepCopy copies every face to a new pointer")
	}
	cp := m.Copy()
	for _, t := range tris {
		vp.Assert(cp.Contains(t), "Copy shares the face pointers")
	}
	vp.Assert(cp.NumTriangles() == n, "Copy keeps the number of faces")
	vp.Reach("end")
}
