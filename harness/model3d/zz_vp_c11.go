//go:build verif

package model3d

import (
	"github.com/unixpickle/model3d/internal/vp"
)

// C11 — mesh diagnostics agree with their definitions. Meshes of f triangles
// whose 3f corners are symbolic vertex ids in [0,4] (coordinates (id,0,0)), so
// sharing, duplication and orientation of faces are all solver-decided; the
// definitions are evaluated by brute force over the ids.

func vpIDMesh(f int) (*Mesh, [][3]float64) {
	m := NewMesh()
	var ids [][3]float64
	symbolic := vp.Param("symbolic") == 1
	for i := 0; i < f; i++ {
		var t [3]float64
		switch {
		case symbolic:
			for j := range t {
				// a vertex id in {0,...,4}, kept as a float so that no
				// int->float conversion has to be bit-blasted
				x := vp.Float64("v")
				vp.Assume(vp.Any(x == 0, x == 1, x == 2, x == 3, x == 4))
				t[j] = x
			}
			vp.Assume(vp.All(t[0] != t[1], t[1] != t[2], t[0] != t[2]))
		case i == 0:
			// symmetry breaking: the first face is (0,1,2)
			t = [3]float64{0, 1, 2}
		default:
			// every ordered triple of distinct ids (explored by forking)
			a := vp.Choice("v0", 5)
			b := vp.Choice("v1", 4)
			c := vp.Choice("v2", 3)
			rest := []float64{0, 1, 2, 3, 4}
			t[0] = rest[a]
			rest = append(append([]float64{}, rest[:a]...), rest[a+1:]...)
			t[1] = rest[b]
			rest = append(append([]float64{}, rest[:b]...), rest[b+1:]...)
			t[2] = rest[c]
		}
		ids = append(ids, t)
		m.Add(&Triangle{X(t[0]), X(t[1]), X(t[2])})
	}
	return m, ids
}

// VP_C11_Diagnostics: NeedsRepair, InconsistentEdges, SingularVertices and
// Orientable against their definitions.
func VP_C11_Diagnostics() {
	f := vp.Param("faces")
	m, ids := vpIDMesh(f)

	// undirected and directed edge multiplicities by brute force
	type edge struct{ a, b float64 }
	var dir []edge
	for _, t := range ids {
		dir = append(dir, edge{t[0], t[1]}, edge{t[1], t[2]}, edge{t[2], t[0]})
	}
	needs := false
	inconsistent := false
	for i, e := range dir {
		und, same := 0, 0
		for _, g := range dir {
			und += vp.IteI(vp.Or(vp.And(e.a == g.a, e.b == g.b), vp.And(e.a == g.b, e.b == g.a)), 1, 0)
			same += vp.IteI(vp.And(e.a == g.a, e.b == g.b), 1, 0)
		}
		_ = i
		needs = vp.Or(needs, und != 2)
		inconsistent = vp.Or(inconsistent, same >= 2)
	}
	vp.Assert(m.NeedsRepair() == needs, "NeedsRepair iff some edge is not shared by exactly two triangles")
	ie := m.InconsistentEdges()
	vp.Assert((len(ie) > 0) == inconsistent, "InconsistentEdges is non-empty iff some edge is traversed twice in the same direction")
	for _, e := range ie {
		cnt := 0
		for _, g := range dir {
			cnt += vp.IteI(vp.And(e[0].X == g.a, e[1].X == g.b), 1, 0)
		}
		vp.Assert(cnt >= 2, "every reported inconsistent edge is traversed at least twice in the same direction")
	}

	// singular vertices: the triangles at a vertex are not edge-connected
	// (f <= 3: connected iff, among the incident triangles, the 'shares an
	// edge' graph is connected)
	shares := func(s, t [3]float64) bool {
		common := 0
		for _, a := range s {
			common += vp.IteI(vp.Or(vp.Or(a == t[0], a == t[1]), a == t[2]), 1, 0)
		}
		return common == 2
	}
	sv := m.SingularVertices()
	for vi := 0; vi < 5; vi++ {
		v := float64(vi)
		inc := make([]bool, f)
		for i, t := range ids {
			inc[i] = vp.Or(vp.Or(t[0] == v, t[1] == v), t[2] == v)
		}
		// reachability from the first incident triangle by f rounds of closure
		reach := make([]bool, f)
		seeded := false
		for i := range ids {
			reach[i] = vp.And(inc[i], vp.Not(seeded))
			seeded = vp.Or(seeded, inc[i])
		}
		for round := 0; round < f; round++ {
			next := make([]bool, f)
			for i := range ids {
				next[i] = reach[i]
				for j := range ids {
					if i != j {
						next[i] = vp.Or(next[i], vp.All(inc[i], reach[j], shares(ids[i], ids[j])))
					}
				}
			}
			reach = next
		}
		singular := false
		for i := range ids {
			singular = vp.Or(singular, vp.And(inc[i], vp.Not(reach[i])))
		}
		reported := false
		for _, c := range sv {
			reported = vp.Or(reported, c.X == v)
		}
		vp.Assert(reported == singular, "SingularVertices are exactly the vertices whose triangle fan is disconnected")
	}
	vp.Reach("end")
}

// vpNodeSolid: the solid of a hierarchy node: whether it contains the probe
// point is a solver variable per node.
type vpNodeSolid struct {
	name string
	in   bool
}

func (s *vpNodeSolid) Min() Coord3D          { return XYZ(-10, -10, -10) }
func (s *vpNodeSolid) Max() Coord3D          { return XYZ(10, 10, 10) }
func (s *vpNodeSolid) Contains(Coord3D) bool { return s.in }

// VP_C11_InsertLeaf: MeshHierarchy.insertLeaf puts a new (leaf) component
// under the deepest node that encloses it: in a hand-built hierarchy
// root -> {A -> {A1}, B -> {B1, B2}} with symbolic "node encloses the new
// component" answers (nested consistently, siblings disjoint) the new node
// becomes a child of exactly the innermost enclosing node and nothing else
// changes.
func VP_C11_InsertLeaf() {
	node := func(name string, kids ...*MeshHierarchy) (*MeshHierarchy, *vpNodeSolid) {
		s := &vpNodeSolid{name: name, in: vp.Bool(name + " encloses the new component")}
		return &MeshHierarchy{Mesh: NewMesh(), MeshSolid: s, Children: kids}, s
	}
	a1, sa1 := node("A1")
	b1, sb1 := node("B1")
	b2, sb2 := node("B2")
	a, sa := node("A", a1)
	b, sb := node("B", b1, b2)
	root := &MeshHierarchy{Mesh: NewMesh(), MeshSolid: &vpNodeSolid{name: "root", in: true}, Children: []*MeshHierarchy{a, b}}
	// nesting is consistent and siblings are disjoint
	vp.Assume(vp.All(vp.Implies(sa1.in, sa.in), vp.Implies(sb1.in, sb.in), vp.Implies(sb2.in, sb.in), !(sa.in && sb.in), !(sb1.in && sb2.in)))
	leaf := NewMeshRect(XYZ(0, 0, 0), XYZ(1, 1, 1))
	leafSolid := &vpNodeSolid{name: "leaf"}
	root.insertLeaf(leaf, leafSolid, XYZ(0, 0, 0))

	want := root
	switch {
	case sa1.in:
		want = a1
	case sa.in:
		want = a
	case sb1.in:
		want = b1
	case sb2.in:
		want = b2
	case sb.in:
		want = b
	}
	total := 0
	for _, n := range []*MeshHierarchy{root, a, b, a1, b1, b2} {
		extra := 0
		for _, c := range n.Children {
			if c.MeshSolid == Solid(leafSolid) {
				extra++
				vp.Assert(c.Mesh == leaf && len(c.Children) == 0, "the new node carries the new component and has no children")
			}
		}
		total += extra
		vp.Assert((extra == 1) == (n == want), "the new component becomes a child of exactly the innermost enclosing node")
	}
	vp.Assert(total == 1, "the new component is inserted exactly once")
	vp.Assert(len(root.Children) == 2+b2i(want == root) && len(a.Children) == 1+b2i(want == a) && len(b.Children) == 2+b2i(want == b), "existing children are kept")
	vp.Reach("end")
}

func b2i(b bool) int {
	if b {
		return 1
	}
	return 0
}
