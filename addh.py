#!/usr/bin/env python3
# addh.py <PROP> '<json harness spec>'  — add/replace one harness entry of a property in props.json and regenerate MANIFEST.json
import json,sys,subprocess
prop,spec=sys.argv[1],json.loads(sys.argv[2])
d=json.load(open('/verif/props.json'))
for p in d:
    if p['id']==prop:
        hs=[h for h in p['harnesses'] if not (h['fn']==spec['fn'] and h.get('pkg')==spec.get('pkg'))]
        hs.append(spec); p['harnesses']=hs
json.dump(d,open('/verif/props.json','w'),indent=1)
subprocess.run(['python3','/verif/gen_manifest.py'],stdout=subprocess.DEVNULL,check=True)
