package main

// One persistent `z3 -in` per worker. Declarations are global
// (:global-decls), assertions live inside push/pop frames.

import (
	"bufio"
	"fmt"
	"io"
	"os"
	"os/exec"
	"strings"
	"sync/atomic"
	"time"
)

type SatResult int

const (
	Unsat SatResult = iota
	Sat
	Unknown
)

func (r SatResult) String() string {
	return [...]string{"unsat", "sat", "unknown"}[r]
}

var solverSeq int64

type Solver struct {
	bin     string
	cmd     *exec.Cmd
	in      io.WriteCloser
	out     *bufio.Reader
	defined map[int]bool
	depth   int
	log     io.Writer
	owner   *TermTable

	timeoutMS  int
	curTimeout int
	nra        bool // float_mode=real: use the NRA portfolio in Check
	nlsatFirst bool
	frames     [][]*Term // assertion stack (frame 0 = base), for replay after a watchdog restart
	// stats
	Queries  int
	NSat     int
	NUnsat   int
	NUnknown int
	Time     time.Duration
	restarts int
	sinceRestart int
}

func NewSolver(bin string, timeoutMS int) *Solver {
	s := &Solver{bin: bin, timeoutMS: timeoutMS}
	if p := os.Getenv("SYMGO_SMTLOG"); p != "" {
		f, err := os.OpenFile(fmt.Sprintf("%s.%d", p, atomic.AddInt64(&solverSeq, 1)), os.O_CREATE|os.O_WRONLY|os.O_APPEND, 0644)
		if err == nil {
			s.log = f
		}
	}
	s.start()
	return s
}

func (s *Solver) start() {
	args := []string{"-in"}
	if strings.Contains(s.bin, "cvc5") {
		args = []string{"--incremental", "--lang=smt2", "--produce-models", fmt.Sprintf("--tlimit-per=%d", s.timeoutMS)}
	}
	s.cmd = exec.Command(s.bin, args...)
	in, err := s.cmd.StdinPipe()
	if err != nil {
		panic(engineFault{"solver stdin: " + err.Error()})
	}
	out, err := s.cmd.StdoutPipe()
	if err != nil {
		panic(engineFault{"solver stdout: " + err.Error()})
	}
	s.cmd.Stderr = os.Stderr
	if err := s.cmd.Start(); err != nil {
		panic(engineFault{"solver start: " + err.Error()})
	}
	s.in = in
	s.out = bufio.NewReaderSize(out, 1<<20)
	s.defined = map[int]bool{}
	s.depth = 0
	s.sinceRestart = 0
	s.sendOptions()
}

func (s *Solver) resetFrames() { s.frames = [][]*Term{nil} }

func (s *Solver) sendOptions() {
	if strings.Contains(s.bin, "cvc5") {
		s.send("(set-option :global-declarations true)")
		s.send("(set-logic ALL)")
	} else {
		s.send("(set-option :global-decls true)")
		s.send(fmt.Sprintf("(set-option :timeout %d)", s.timeoutMS))
		s.curTimeout = s.timeoutMS
		s.send("(set-option :pp.decimal true)")
		s.send("(set-option :pp.decimal_precision 25)")
		s.send("(set-option :model.completion true)")
	}
}

// Reset forgets all declarations and assertions (new term table).
func (s *Solver) Reset() {
	s.frames = [][]*Term{nil}
	s.send("(reset)")
	s.defined = map[int]bool{}
	s.depth = 0
	s.sendOptions()
}

func (s *Solver) Close() {
	if s.cmd != nil {
		s.in.Close()
		s.cmd.Process.Kill()
		s.cmd.Wait()
		s.cmd = nil
	}
}

func (s *Solver) Restart() {
	s.Close()
	s.restarts++
	s.frames = [][]*Term{nil}
	s.start()
}

func (s *Solver) send(line string) {
	if s.log != nil {
		fmt.Fprintln(s.log, line)
	}
	if _, err := io.WriteString(s.in, line+"\n"); err != nil {
		panic(engineFault{"solver write: " + err.Error()})
	}
}

func (s *Solver) readLine() string {
	line, err := s.out.ReadString('\n')
	if err != nil && line == "" {
		panic(engineFault{"solver read: " + err.Error()})
	}
	return strings.TrimRight(line, "\r\n")
}

// define makes sure t (and its sub-terms) have names in the solver.
func (s *Solver) define(t *Term) {
	if t.isLit {
		return
	}
	if s.defined[t.id] {
		return
	}
	// iterative post-order to avoid deep recursion
	type fr struct {
		t *Term
		i int
	}
	stack := []fr{{t, 0}}
	for len(stack) > 0 {
		top := &stack[len(stack)-1]
		if top.t.isLit || s.defined[top.t.id] {
			stack = stack[:len(stack)-1]
			continue
		}
		if top.i < len(top.t.args) {
			a := top.t.args[top.i]
			top.i++
			if !a.isLit && !s.defined[a.id] {
				stack = append(stack, fr{a, 0})
			}
			continue
		}
		tt := top.t
		if tt.isVar {
			s.send(fmt.Sprintf("(declare-const %s %s)", tt.op, tt.sort))
		} else {
			s.send(fmt.Sprintf("(define-fun t%d () %s %s)", tt.id, tt.sort, tt.body()))
		}
		s.defined[tt.id] = true
		stack = stack[:len(stack)-1]
	}
}

func (s *Solver) Push() {
	s.send("(push)")
	s.depth++
	s.frames = append(s.frames, nil)
}
func (s *Solver) Pop() {
	s.send("(pop)")
	s.depth--
	if len(s.frames) > 1 {
		s.frames = s.frames[:len(s.frames)-1]
	}
}

// replayFrames restores the assertion stack in a freshly started solver.
func (s *Solver) replayFrames() {
	frames := s.frames
	s.frames = [][]*Term{nil}
	for i, fr := range frames {
		if i > 0 {
			s.Push()
		}
		for _, t := range fr {
			s.Assert(t)
		}
	}
}

func (s *Solver) PopAll() {
	defer func() {
		if r := recover(); r != nil {
			if _, ok := r.(engineFault); ok {
				// the solver process is gone (killed by the watchdog after a
				// time-out that it ignored): a fresh process has the empty
				// stack PopAll is asked to produce
				s.Restart()
				return
			}
			panic(r)
		}
	}()
	for s.depth > 0 {
		s.Pop()
	}
}

func (s *Solver) Assert(t *Term) {
	if t.isTrue() {
		return
	}
	s.define(t)
	s.send("(assert " + t.ref() + ")")
	if len(s.frames) == 0 {
		s.frames = [][]*Term{nil}
	}
	s.frames[len(s.frames)-1] = append(s.frames[len(s.frames)-1], t)
}

// Check runs (check-sat). Any "(error" output makes the result Unknown.
//
// With nra set (float_mode=real) a portfolio is used: the default strategy
// under a short time limit, then a sum-of-monomials normalisation followed by
// the SMT core (decides polynomial identities that nlsat does not finish),
// then the default strategy under the full limit. Every stage is z3; the
// first definite answer is taken.
func (s *Solver) Check() SatResult {
	if !s.nra || strings.Contains(s.bin, "cvc5") {
		return s.checkOnce("(check-sat)", s.timeoutMS, true)
	}
	short := s.timeoutMS / 8
	if short < 1500 {
		short = 1500
	}
	if s.nlsatFirst {
		// harness option nlsatFirst=1: the default strategy rarely decides
		// this harness's queries within the short limit, so it only gets 300 ms
		short = 300
	}
	r := s.checkOnce("(check-sat)", short, false)
	if r != Unknown {
		return r
	}
	// pure nlsat after purification / term-ite elimination (decides the
	// min/max-heavy and division-heavy obligations)
	r = s.checkOnce("(check-sat-using (then simplify purify-arith elim-term-ite solve-eqs qfnra-nlsat))", s.timeoutMS/2, false)
	if r != Unknown {
		return r
	}
	r = s.checkOnce("(check-sat-using (then (using-params simplify :som true :arith_lhs true :som_blowup 1000000) smt))", s.timeoutMS/2, false)
	if r != Unknown {
		return r
	}
	return s.checkOnce("(check-sat)", s.timeoutMS, true)
}

func (s *Solver) checkOnce(cmd string, timeoutMS int, final bool) (result SatResult) {
	t0 := time.Now()
	killed := false
	defer func() {
		if killed {
			result = Unknown
		}
	}()
	if timeoutMS != s.curTimeout && !strings.Contains(s.bin, "cvc5") {
		s.send(fmt.Sprintf("(set-option :timeout %d)", timeoutMS))
		s.curTimeout = timeoutMS
	}
	s.send(cmd)
	s.send("(echo \"@@done\")")
	res := Unknown
	sawErr := false
	got := false
	// watchdog: z3's own :timeout is not honoured inside some tactics
	proc := s.cmd.Process
	timedOut := false
	timer := time.AfterFunc(time.Duration(timeoutMS)*time.Millisecond*3/2+2*time.Second, func() {
		timedOut = true
		proc.Kill()
	})
	defer timer.Stop()
	defer func() {
		if r := recover(); r != nil {
			if timedOut {
				s.Time += time.Since(t0)
				s.cmd.Wait()
				s.cmd = nil
				s.restarts++
				s.start()
				s.replayFrames()
				killed = true
				if final {
					s.Queries++
					s.NUnknown++
				}
				return
			}
			panic(r)
		}
	}()
	for {
		line := s.readLine()
		if line == "@@done" || line == "\"@@done\"" {
			break
		}
		switch {
		case line == "sat":
			res, got = Sat, true
		case line == "unsat":
			res, got = Unsat, true
		case line == "unknown" || line == "timeout":
			res, got = Unknown, true
		case strings.HasPrefix(line, "(error"):
			sawErr = true
			fmt.Fprintln(os.Stderr, "symgo: solver error:", line)
		}
	}
	if sawErr || !got {
		res = Unknown
	}
	if debugQueries {
		fmt.Fprintf(os.Stderr, "stage %.30s: %s %.2fs\n", cmd, res, time.Since(t0).Seconds())
	}
	if res == Unknown && !final {
		s.Time += time.Since(t0)
		return res
	}
	s.Queries++
	s.sinceRestart++
	switch res {
	case Sat:
		s.NSat++
	case Unsat:
		s.NUnsat++
	default:
		s.NUnknown++
	}
	s.Time += time.Since(t0)
	if debugQueries {
		fmt.Fprintf(os.Stderr, "query %d: %s %.2fs\n", s.Queries, res, time.Since(t0).Seconds())
	}
	return res
}

var debugQueries = os.Getenv("SYMGO_QTRACE") != ""

// CheckWith checks the current frame plus the extra assertions.
func (s *Solver) CheckWith(extra ...*Term) SatResult {
	for _, e := range extra {
		if e.isFalse() {
			return Unsat
		}
	}
	for _, e := range extra {
		s.define(e)
	}
	s.Push()
	for _, e := range extra {
		s.Assert(e)
	}
	r := s.Check()
	s.Pop()
	return r
}

// Values returns the model values of the given variables (call right after
// a Sat answer, inside the same frame).
func (s *Solver) Values(vars []*Term) map[string]string {
	res := map[string]string{}
	if len(vars) == 0 {
		return res
	}
	var sb strings.Builder
	sb.WriteString("(get-value (")
	for i, v := range vars {
		s.define(v)
		if i > 0 {
			sb.WriteByte(' ')
		}
		sb.WriteString(v.ref())
	}
	sb.WriteString("))")
	s.send(sb.String())
	s.send("(echo \"@@done\")")
	var all strings.Builder
	for {
		line := s.readLine()
		if line == "@@done" || line == "\"@@done\"" {
			break
		}
		all.WriteString(line)
		all.WriteByte(' ')
	}
	text := all.String()
	if strings.Contains(text, "(error") {
		return res
	}
	// parse ((name value) (name value) ...)
	sx := parseSexp(text)
	if sx == nil {
		return res
	}
	for _, pair := range sx.list {
		if len(pair.list) == 2 {
			res[pair.list[0].String()] = pair.list[1].String()
		}
	}
	return res
}

// ---- tiny s-expression parser ----

type sexp struct {
	atom string
	list []*sexp
	isList bool
}

func (s *sexp) String() string {
	if !s.isList {
		return s.atom
	}
	parts := make([]string, len(s.list))
	for i, e := range s.list {
		parts[i] = e.String()
	}
	return "(" + strings.Join(parts, " ") + ")"
}

func parseSexp(text string) *sexp {
	pos := 0
	var parse func() *sexp
	skip := func() {
		for pos < len(text) && (text[pos] == ' ' || text[pos] == '\n' || text[pos] == '\t' || text[pos] == '\r') {
			pos++
		}
	}
	parse = func() *sexp {
		skip()
		if pos >= len(text) {
			return nil
		}
		if text[pos] == '(' {
			pos++
			n := &sexp{isList: true}
			for {
				skip()
				if pos >= len(text) {
					return n
				}
				if text[pos] == ')' {
					pos++
					return n
				}
				c := parse()
				if c == nil {
					return n
				}
				n.list = append(n.list, c)
			}
		}
		start := pos
		if text[pos] == '|' {
			pos++
			for pos < len(text) && text[pos] != '|' {
				pos++
			}
			pos++
			return &sexp{atom: text[start:pos]}
		}
		for pos < len(text) && !strings.ContainsRune(" \n\t\r()", rune(text[pos])) {
			pos++
		}
		return &sexp{atom: text[start:pos]}
	}
	return parse()
}
