package main

// Symbolic layer over binop/unop/conv.

import (
	"fmt"
	"go/token"
	"go/types"
	"math"

	"golang.org/x/tools/go/ssa"
)

type FloatMode int

const (
	ModeFP FloatMode = iota
	ModeReal
)

func basicKind(t types.Type) (types.BasicKind, bool) {
	if t == nil {
		return types.Invalid, false
	}
	b, ok := t.Underlying().(*types.Basic)
	if !ok {
		return types.Invalid, false
	}
	return b.Kind(), true
}

// ---- lifting concrete scalars to terms ----

func (m *Machine) intTerm(x value) *Term {
	switch x := x.(type) {
	case symInt:
		return x.t
	case int:
		return m.tt.BVLit(uint64(x), 64)
	case int8:
		return m.tt.BVLit(uint64(x), 8)
	case int16:
		return m.tt.BVLit(uint64(x), 16)
	case int32:
		return m.tt.BVLit(uint64(x), 32)
	case int64:
		return m.tt.BVLit(uint64(x), 64)
	case uint:
		return m.tt.BVLit(uint64(x), 64)
	case uint8:
		return m.tt.BVLit(uint64(x), 8)
	case uint16:
		return m.tt.BVLit(uint64(x), 16)
	case uint32:
		return m.tt.BVLit(uint64(x), 32)
	case uint64:
		return m.tt.BVLit(x, 64)
	case uintptr:
		return m.tt.BVLit(uint64(x), 64)
	}
	panic(engineFault{fmt.Sprintf("intTerm of %T", x)})
}

func (m *Machine) floatSort(bits int) Sort {
	if m.mode == ModeReal {
		return sortReal
	}
	if bits == 32 {
		return sortFP32
	}
	return sortFP64
}

func (m *Machine) floatTerm(x value) *Term {
	switch x := x.(type) {
	case symFloat:
		return x.t
	case float64:
		if m.mode == ModeReal {
			if math.IsInf(x, 0) || math.IsNaN(x) {
				panic(pathEnd{status: StUnsupported, msg: "non-finite constant meets a symbolic value in real mode"})
			}
			return m.tt.RealLit(x)
		}
		return m.tt.FP64Lit(x)
	case float32:
		if m.mode == ModeReal {
			if math.IsInf(float64(x), 0) || x != x {
				panic(pathEnd{status: StUnsupported, msg: "non-finite constant meets a symbolic value in real mode"})
			}
			return m.tt.RealLit(float64(x))
		}
		return m.tt.FP32Lit(x)
	}
	panic(engineFault{fmt.Sprintf("floatTerm of %T", x)})
}

func (m *Machine) boolTerm(x value) *Term {
	switch x := x.(type) {
	case symBool:
		return x.t
	case bool:
		return m.tt.BoolLit(x)
	}
	panic(engineFault{fmt.Sprintf("boolTerm of %T", x)})
}

func floatBitsOf(x value) int {
	switch x := x.(type) {
	case float32:
		return 32
	case float64:
		return 64
	case symFloat:
		return x.bits
	}
	return 0
}

func isFloatVal(x value) bool {
	switch x.(type) {
	case float32, float64, symFloat:
		return true
	}
	return false
}

func isIntVal(x value) bool {
	return kindOfValue(x) != types.Invalid
}

func concFloat(x value) (float64, bool) {
	switch x := x.(type) {
	case float64:
		return x, true
	case float32:
		return float64(x), true
	}
	return 0, false
}

func (m *Machine) mkBool(t *Term) value {
	if t.isTrue() {
		return true
	}
	if t.isFalse() {
		return false
	}
	return symBool{t}
}

// symCompareEq: x == y where at least one is a symbolic scalar.
func (m *Machine) symCompareEq(x, y value) value {
	switch {
	case isFloatVal(x):
		return m.floatCmp(token.EQL, x, y)
	case isIntVal(x):
		return m.mkBool(m.tt.Eq(m.intTerm(x), m.intTerm(y)))
	default:
		return m.mkBool(m.tt.Eq(m.boolTerm(x), m.boolTerm(y)))
	}
}

func (m *Machine) floatCmp(op token.Token, x, y value) value {
	// infinities against symbolic finite values (real mode and fp mode alike:
	// symbolic floats from vp.Float64 are finite; AnyFloat64 values are only
	// compared in fp mode where the literal is exact).
	if m.mode == ModeReal {
		if f, ok := concFloat(x); ok && (math.IsInf(f, 0) || math.IsNaN(f)) {
			return foldInfCmp(op, f, true)
		}
		if f, ok := concFloat(y); ok && (math.IsInf(f, 0) || math.IsNaN(f)) {
			return foldInfCmp(op, f, false)
		}
	}
	a, b := m.floatTerm(x), m.floatTerm(y)
	var name string
	if m.mode == ModeReal {
		switch op {
		case token.EQL:
			return m.mkBool(m.tt.Eq(a, b))
		case token.NEQ:
			return m.mkBool(m.tt.Not(m.tt.Eq(a, b)))
		case token.LSS:
			name = "<"
		case token.LEQ:
			name = "<="
		case token.GTR:
			name = ">"
		case token.GEQ:
			name = ">="
		}
		if a == b {
			return op == token.LEQ || op == token.GEQ
		}
	} else {
		switch op {
		case token.EQL:
			name = "fp.eq"
		case token.NEQ:
			return m.mkBool(m.tt.Not(m.tt.App("fp.eq", sortBool, a, b)))
		case token.LSS:
			name = "fp.lt"
		case token.LEQ:
			name = "fp.leq"
		case token.GTR:
			name = "fp.gt"
		case token.GEQ:
			name = "fp.geq"
		}
	}
	return m.mkBool(m.tt.App(name, sortBool, a, b))
}

// foldInfCmp folds (inf op sym) if infLeft, else (sym op inf); sym is finite.
func foldInfCmp(op token.Token, f float64, infLeft bool) value {
	if math.IsNaN(f) {
		return op == token.NEQ
	}
	pos := f > 0
	if !infLeft {
		// sym op inf  ==  inf op' sym
		switch op {
		case token.LSS:
			op = token.GTR
		case token.LEQ:
			op = token.GEQ
		case token.GTR:
			op = token.LSS
		case token.GEQ:
			op = token.LEQ
		}
	}
	switch op {
	case token.EQL:
		return false
	case token.NEQ:
		return true
	case token.LSS, token.LEQ: // inf < sym
		return !pos
	case token.GTR, token.GEQ: // inf > sym
		return pos
	}
	panic(engineFault{"foldInfCmp"})
}

func (m *Machine) binop(op token.Token, t types.Type, x, y value) value {
	switch op {
	case token.EQL:
		return m.eqnil(t, x, y)
	case token.NEQ:
		return m.notV(m.eqnil(t, x, y))
	}
	if !isSym(x) && !isSym(y) {
		if op == token.QUO || op == token.REM {
			if isIntVal(y) && asInt64(y) == 0 {
				panic(targetPanic{v: "runtime error: integer divide by zero"})
			}
		}
		return binopConcrete(op, t, x, y)
	}
	switch {
	case isFloatVal(x) || isFloatVal(y):
		return m.floatBinop(op, x, y)
	case isIntVal(x):
		return m.intBinop(op, x, y)
	default:
		// bools only support == and !=, handled above
		panic(engineFault{fmt.Sprintf("symbolic binop %s on %T,%T", op, x, y)})
	}
}

func (m *Machine) eqnil(t types.Type, x, y value) value {
	if t != nil {
		switch t.Underlying().(type) {
		case *types.Map, *types.Signature, *types.Slice:
			return isNilRef(x) == isNilRef(y) && (isNilRef(x) || isNilRef(y))
		}
	}
	return m.equalsV(t, x, y)
}

func isNilRef(x value) bool {
	switch x := x.(type) {
	case *smap:
		return x == nil
	case *ssa.Function:
		return x == nil
	case *closure:
		return x == nil
	case []value:
		return x == nil
	case *ssa.Builtin:
		return x == nil
	}
	panic(engineFault{fmt.Sprintf("isNilRef: %T", x)})
}

func (m *Machine) floatBinop(op token.Token, x, y value) value {
	switch op {
	case token.LSS, token.LEQ, token.GTR, token.GEQ:
		return m.floatCmp(op, x, y)
	}
	bits := floatBitsOf(x)
	if bits == 0 {
		bits = floatBitsOf(y)
	}
	srt := m.floatSort(bits)
	if m.mode == ModeReal {
		xf, xc := concFloat(x)
		yf, yc := concFloat(y)
		// ±Inf/NaN constants against a finite symbolic value fold by IEEE rule
		// where the result does not depend on the symbolic operand's sign.
		if xc && math.IsNaN(xf) {
			return x
		}
		if yc && math.IsNaN(yf) {
			return y
		}
		if op == token.ADD || op == token.SUB {
			if xc && math.IsInf(xf, 0) {
				return x
			}
			if yc && math.IsInf(yf, 0) {
				if op == token.SUB {
					yf = -yf
				}
				if bits == 32 {
					return float32(yf)
				}
				return yf
			}
		}
		switch op {
		case token.ADD:
			if xc && xf == 0 {
				return y
			}
			if yc && yf == 0 {
				return x
			}
			return symFloat{m.tt.App("+", srt, m.floatTerm(x), m.floatTerm(y)), bits}
		case token.SUB:
			if yc && yf == 0 {
				return x
			}
			if xc && xf == 0 {
				return symFloat{m.tt.App("-", srt, m.floatTerm(y)), bits}
			}
			a, b := m.floatTerm(x), m.floatTerm(y)
			if a == b {
				return zeroFloat(bits)
			}
			return symFloat{m.tt.App("-", srt, a, b), bits}
		case token.MUL:
			if xc && xf == 0 || yc && yf == 0 {
				return zeroFloat(bits)
			}
			if xc && xf == 1 {
				return y
			}
			if yc && yf == 1 {
				return x
			}
			if xc && xf == -1 {
				return symFloat{m.tt.App("-", srt, m.floatTerm(y)), bits}
			}
			if yc && yf == -1 {
				return symFloat{m.tt.App("-", srt, m.floatTerm(x)), bits}
			}
			return symFloat{m.tt.App("*", srt, m.floatTerm(x), m.floatTerm(y)), bits}
		case token.QUO:
			if yc {
				if yf == 0 {
					panic(pathEnd{status: StFPExc, msg: "division by concrete zero"})
				}
				if yf == 1 {
					return x
				}
				if math.IsInf(yf, 0) {
					return zeroFloat(bits)
				}
				return symFloat{m.tt.App("/", srt, m.floatTerm(x), m.floatTerm(y)), bits}
			}
			d := m.floatTerm(y)
			m.guard(m.tt.Not(m.tt.Eq(d, m.tt.RealLit(0))), "division by zero")
			if xc && xf == 0 {
				return zeroFloat(bits)
			}
			return symFloat{m.tt.App("/", srt, m.floatTerm(x), d), bits}
		}
		panic(engineFault{fmt.Sprintf("float binop %s", op)})
	}
	// IEEE identities that are exact for every operand (NaN, infinities and
	// signed zeros included): x*1 = 1*x = x and x/1 = x
	if xf, xc := concFloat(x); xc && xf == 1 && op == token.MUL {
		return y
	}
	if yf, yc := concFloat(y); yc && yf == 1 && (op == token.MUL || op == token.QUO) {
		return x
	}
	if op == token.MUL && m.h.Params["abstractMul"] == 1 {
		if r, ok := m.abstractConstMul(x, y, bits); ok {
			return r
		}
	}
	var name string
	switch op {
	case token.ADD:
		name = "fp.add RNE"
	case token.SUB:
		name = "fp.sub RNE"
	case token.MUL:
		name = "fp.mul RNE"
	case token.QUO:
		name = "fp.div RNE"
	default:
		panic(engineFault{fmt.Sprintf("float binop %s", op)})
	}
	return symFloat{m.tt.App(name, srt, m.floatTerm(x), m.floatTerm(y)), bits}
}

func zeroFloat(bits int) value {
	if bits == 32 {
		return float32(0)
	}
	return float64(0)
}

func (m *Machine) intBinop(op token.Token, x, y value) value {
	kind := kindOfValue(x)
	bits, signed := kindBits(kind)
	a := m.intTerm(x)
	srt := sortBV(bits)
	if op == token.SHL || op == token.SHR {
		cnt := m.shiftCount(y, bits)
		switch op {
		case token.SHL:
			return symInt{m.tt.App("bvshl", srt, a, cnt), kind}
		default:
			if signed {
				return symInt{m.tt.App("bvashr", srt, a, cnt), kind}
			}
			return symInt{m.tt.App("bvlshr", srt, a, cnt), kind}
		}
	}
	b := m.intTerm(y)
	bin := func(name string) value { return symInt{m.tt.App(name, srt, a, b), kind} }
	cmp := func(s, u string) value {
		if signed {
			return m.mkBool(m.tt.App(s, sortBool, a, b))
		}
		return m.mkBool(m.tt.App(u, sortBool, a, b))
	}
	switch op {
	case token.ADD:
		return bin("bvadd")
	case token.SUB:
		return bin("bvsub")
	case token.MUL:
		return bin("bvmul")
	case token.QUO, token.REM:
		if _, ok := y.(symInt); ok {
			if m.branch(m.tt.Eq(b, m.tt.BVLit(0, bits))) {
				panic(targetPanic{v: "runtime error: integer divide by zero"})
			}
		}
		if op == token.QUO {
			if signed {
				return bin("bvsdiv")
			}
			return bin("bvudiv")
		}
		if signed {
			return bin("bvsrem")
		}
		return bin("bvurem")
	case token.AND:
		return bin("bvand")
	case token.OR:
		return bin("bvor")
	case token.XOR:
		return bin("bvxor")
	case token.AND_NOT:
		return symInt{m.tt.App("bvand", srt, a, m.tt.App("bvnot", srt, b)), kind}
	case token.LSS:
		return cmp("bvslt", "bvult")
	case token.LEQ:
		return cmp("bvsle", "bvule")
	case token.GTR:
		return cmp("bvsgt", "bvugt")
	case token.GEQ:
		return cmp("bvsge", "bvuge")
	}
	panic(engineFault{fmt.Sprintf("int binop %s", op)})
}

// shiftCount converts a shift count to a BV of width bits with Go semantics
// (counts >= width shift everything out; negative counts panic).
func (m *Machine) shiftCount(y value, bits int) *Term {
	if sy, ok := y.(symInt); ok {
		yb, ysigned := kindBits(sy.kind)
		if ysigned {
			if m.branch(m.tt.App("bvslt", sortBool, sy.t, m.tt.BVLit(0, yb))) {
				panic(targetPanic{v: "runtime error: negative shift amount"})
			}
		}
		switch {
		case yb == bits:
			return sy.t
		case yb < bits:
			return m.tt.App(fmt.Sprintf("(_ zero_extend %d)", bits-yb), sortBV(bits), sy.t)
		default:
			big := m.tt.App("bvuge", sortBool, sy.t, m.tt.BVLit(uint64(bits), yb))
			low := m.tt.App(fmt.Sprintf("(_ extract %d 0)", bits-1), sortBV(bits), sy.t)
			return m.tt.Ite(big, m.tt.BVLit(uint64(bits), bits), low)
		}
	}
	u, ok := asUnsigned(y)
	if !ok {
		panic(targetPanic{v: "runtime error: negative shift amount"})
	}
	c := asUint64(u)
	if c > uint64(bits) {
		c = uint64(bits)
	}
	return m.tt.BVLit(c, bits)
}

func (m *Machine) unopArith(op token.Token, x value) value {
	switch x := x.(type) {
	case symBool:
		if op == token.NOT {
			return m.mkBool(m.tt.Not(x.t))
		}
	case symInt:
		bits, _ := kindBits(x.kind)
		switch op {
		case token.SUB:
			return symInt{m.tt.App("bvneg", sortBV(bits), x.t), x.kind}
		case token.XOR:
			return symInt{m.tt.App("bvnot", sortBV(bits), x.t), x.kind}
		}
	case symFloat:
		if op == token.SUB {
			if m.mode == ModeReal {
				return symFloat{m.tt.App("-", sortReal, x.t), x.bits}
			}
			return symFloat{m.tt.App("fp.neg", m.floatSort(x.bits), x.t), x.bits}
		}
	}
	panic(engineFault{fmt.Sprintf("symbolic unop %s %T", op, x)})
}

// conv converts x of type t_src to t_dst.
func (m *Machine) conv(t_dst, t_src types.Type, x value) value {
	if !isSym(x) {
		return convConcrete(t_dst, t_src, x)
	}
	dk, ok := basicKind(t_dst)
	if !ok {
		panic(engineFault{fmt.Sprintf("symbolic conversion to %s", t_dst)})
	}
	dInfo := types.Typ[dk].Info()
	switch x := x.(type) {
	case symInt:
		sb, ssigned := kindBits(x.kind)
		switch {
		case dInfo&types.IsInteger != 0:
			db, _ := kindBits(dk)
			var t *Term
			switch {
			case db == sb:
				t = x.t
			case db < sb:
				t = m.tt.App(fmt.Sprintf("(_ extract %d 0)", db-1), sortBV(db), x.t)
			case ssigned:
				t = m.tt.App(fmt.Sprintf("(_ sign_extend %d)", db-sb), sortBV(db), x.t)
			default:
				t = m.tt.App(fmt.Sprintf("(_ zero_extend %d)", db-sb), sortBV(db), x.t)
			}
			return symInt{t, dk}
		case dInfo&types.IsFloat != 0:
			fb := 64
			if dk == types.Float32 {
				fb = 32
			}
			if m.mode == ModeReal {
				n := m.tt.App("bv2int", sortInt, x.t)
				if ssigned {
					neg := m.tt.App("bvslt", sortBool, x.t, m.tt.BVLit(0, sb))
					pow := m.tt.Lit(pow2String(sb), sortInt)
					n = m.tt.Ite(neg, m.tt.App("-", sortInt, n, pow), n)
				}
				return symFloat{m.tt.App("to_real", sortReal, n), fb}
			}
			opn := "(_ to_fp 11 53) RNE"
			if fb == 32 {
				opn = "(_ to_fp 8 24) RNE"
			}
			if !ssigned {
				opn = "(_ to_fp_unsigned 11 53) RNE"
				if fb == 32 {
					opn = "(_ to_fp_unsigned 8 24) RNE"
				}
			}
			return symFloat{m.tt.App(opn, m.floatSort(fb), x.t), fb}
		}
	case symFloat:
		switch {
		case dInfo&types.IsFloat != 0:
			fb := 64
			if dk == types.Float32 {
				fb = 32
			}
			if m.mode == ModeReal || fb == x.bits {
				return symFloat{x.t, fb}
			}
			opn := "(_ to_fp 11 53) RNE"
			if fb == 32 {
				opn = "(_ to_fp 8 24) RNE"
			}
			return symFloat{m.tt.App(opn, m.floatSort(fb), x.t), fb}
		case dInfo&types.IsInteger != 0:
			db, dsigned := kindBits(dk)
			if m.mode == ModeReal {
				// truncation toward zero
				nonneg := m.tt.App(">=", sortBool, x.t, m.tt.RealLit(0))
				fl := m.tt.App("to_int", sortInt, x.t)
				negfl := m.tt.App("-", sortInt, m.tt.App("to_int", sortInt, m.tt.App("-", sortReal, x.t)))
				n := m.tt.Ite(nonneg, fl, negfl)
				return symInt{m.tt.App(fmt.Sprintf("(_ int2bv %d)", db), sortBV(db), n), dk}
			}
			opn := fmt.Sprintf("(_ fp.to_sbv %d) RTZ", db)
			if !dsigned {
				opn = fmt.Sprintf("(_ fp.to_ubv %d) RTZ", db)
			}
			return symInt{m.tt.App(opn, sortBV(db), x.t), dk}
		}
	}
	panic(engineFault{fmt.Sprintf("unsupported symbolic conversion %s -> %s (%T)", t_src, t_dst, x)})
}

func pow2String(n int) string {
	switch n {
	case 8:
		return "256"
	case 16:
		return "65536"
	case 32:
		return "4294967296"
	case 64:
		return "18446744073709551616"
	}
	panic(engineFault{"pow2String"})
}

// mergeValues builds ite(c, a, b) structurally; ok=false if not mergeable.
func (m *Machine) mergeValues(c *Term, a, b value) (value, bool) {
	switch av := a.(type) {
	case structure:
		bv, ok := b.(structure)
		if !ok || len(av) != len(bv) {
			return nil, false
		}
		res := make(structure, len(av))
		for i := range av {
			r, ok := m.mergeValues(c, av[i], bv[i])
			if !ok {
				return nil, false
			}
			res[i] = r
		}
		return res, true
	case array:
		bv, ok := b.(array)
		if !ok || len(av) != len(bv) {
			return nil, false
		}
		res := make(array, len(av))
		for i := range av {
			r, ok := m.mergeValues(c, av[i], bv[i])
			if !ok {
				return nil, false
			}
			res[i] = r
		}
		return res, true
	case tuple:
		bv, ok := b.(tuple)
		if !ok || len(av) != len(bv) {
			return nil, false
		}
		res := make(tuple, len(av))
		for i := range av {
			r, ok := m.mergeValues(c, av[i], bv[i])
			if !ok {
				return nil, false
			}
			res[i] = r
		}
		return res, true
	case bool, symBool:
		switch b.(type) {
		case bool, symBool:
			return m.mkBool(m.tt.Ite(c, m.boolTerm(a), m.boolTerm(b))), true
		}
		return nil, false
	}
	if isIntVal(a) && isIntVal(b) {
		ka, kb := kindOfValue(a), kindOfValue(b)
		if ka != kb {
			return nil, false
		}
		if !isSym(a) && !isSym(b) && asInt64(a) == asInt64(b) {
			return a, true
		}
		return symInt{m.tt.Ite(c, m.intTerm(a), m.intTerm(b)), ka}, true
	}
	if isFloatVal(a) && isFloatVal(b) {
		ba, bb := floatBitsOf(a), floatBitsOf(b)
		if ba != bb {
			return nil, false
		}
		fa, ca := concFloat(a)
		fb, cb := concFloat(b)
		if ca && cb {
			if math.Float64bits(fa) == math.Float64bits(fb) {
				return a, true
			}
			if m.noFloatLift {
				// merging two different concrete floats would make arithmetic
				// symbolic; forking keeps it concrete
				return nil, false
			}
		}
		if m.mode == ModeReal {
			for _, v := range []value{a, b} {
				if f, ok := concFloat(v); ok && (math.IsInf(f, 0) || math.IsNaN(f)) {
					return nil, false
				}
			}
		}
		return symFloat{m.tt.Ite(c, m.floatTerm(a), m.floatTerm(b)), ba}, true
	}
	// identical non-scalars
	switch av := a.(type) {
	case string:
		if bs, ok := b.(string); ok && bs == av {
			return a, true
		}
	case *value:
		if bp, ok := b.(*value); ok && bp == av {
			return a, true
		}
	case iface:
		if bi, ok := b.(iface); ok && sameType(av.t, bi.t) {
			if av.t == nil {
				return a, true
			}
			r, ok := m.mergeValues(c, av.v, bi.v)
			if ok {
				return iface{av.t, r}, true
			}
		}
	case []value:
		if bs, ok := b.([]value); ok {
			if av == nil && bs == nil {
				return a, true
			}
			if len(av) == len(bs) && len(av) > 0 && &av[0] == &bs[0] {
				return a, true
			}
		}
	case *smap:
		if bm, ok := b.(*smap); ok && bm == av {
			return a, true
		}
	case *closure:
		if bc, ok := b.(*closure); ok && bc == av {
			return a, true
		}
	case *ssa.Function:
		if bf, ok := b.(*ssa.Function); ok && bf == av {
			return a, true
		}
	}
	return nil, false
}

// abstractConstMul (harness option abstractMul=1, fp mode): the product of a
// finite non-zero constant c (2^-100 <= |c| <= 2^100) and a symbolic float X
// is replaced by a fresh float P constrained only by facts that hold for every
// IEEE-754 round-to-nearest product:
//
//	P is NaN iff X is NaN;   sign(P) = sign(c) xor sign(X);
//	X zero => P zero;        X infinite => P infinite;
//	P zero => X zero or |X| <= 2^-900;   P infinite => X infinite or |X| >= 2^900.
//
// This over-approximates the real function, so "unsat" carries over to the
// real code; a model found under the abstraction is only reported after it
// reproduces natively (the driver re-runs the harness with the precise
// encoding to look for a concrete counterexample).
func (m *Machine) abstractConstMul(x, y value, bits int) (value, bool) {
	cf, xc := concFloat(x)
	other := y
	if !xc {
		cf, xc = concFloat(y)
		other = x
		if !xc {
			return nil, false
		}
	}
	sx, ok := other.(symFloat)
	if !ok || cf == 0 || math.IsNaN(cf) || math.IsInf(cf, 0) {
		return nil, false
	}
	if a := math.Abs(cf); a < math.Ldexp(1, -100) || a > math.Ldexp(1, 100) {
		return nil, false
	}
	srt := m.floatSort(bits)
	tt := m.tt
	precise := tt.App("fp.mul RNE", srt, m.floatTerm(x), m.floatTerm(y))
	p := m.freshInternal("cmul", precise, srt)
	if m.absDone == nil {
		m.absDone = map[*Term]bool{}
	}
	if !m.absDone[p] {
		m.absDone[p] = true
		m.h.noteStub("abstractMul: constant*symbolic products replaced by sign/zero/infinity-respecting fresh floats (over-approximation)")
		X := sx.t
		isNaN := func(t *Term) *Term { return tt.App("fp.isNaN", sortBool, t) }
		isNeg := func(t *Term) *Term { return tt.App("fp.isNegative", sortBool, t) }
		isZero := func(t *Term) *Term { return tt.App("fp.isZero", sortBool, t) }
		isInf := func(t *Term) *Term { return tt.App("fp.isInfinite", sortBool, t) }
		lit := func(f float64) *Term {
			if bits == 32 {
				return tt.FP32Lit(float32(f))
			}
			return tt.FP64Lit(f)
		}
		absX := tt.App("fp.abs", srt, X)
		m.addPC(tt.Eq(isNaN(p), isNaN(X)))
		if cf > 0 {
			m.addPC(tt.Or(isNaN(X), tt.Eq(isNeg(p), isNeg(X))))
		} else {
			m.addPC(tt.Or(isNaN(X), tt.Eq(isNeg(p), tt.Not(isNeg(X)))))
		}
		m.addPC(tt.Implies(isZero(X), isZero(p)))
		m.addPC(tt.Implies(isInf(X), isInf(p)))
		small, big := math.Ldexp(1, -900), math.Ldexp(1, 900)
		if bits == 32 {
			small, big = math.Ldexp(1, -20), math.Ldexp(1, 20)
		}
		m.addPC(tt.Implies(isZero(p), tt.Or(isZero(X), tt.App("fp.leq", sortBool, absX, lit(small)))))
		m.addPC(tt.Implies(isInf(p), tt.Or(isInf(X), tt.App("fp.geq", sortBool, absX, lit(big)))))
		// congruence with earlier abstracted products by the same constant
		key := math.Float64bits(cf)
		for _, prev := range m.absProducts[key] {
			if prev.bits == bits {
				m.addPC(tt.Implies(tt.Eq(X, prev.x), tt.Eq(p, prev.p)))
			}
		}
		if m.absProducts == nil {
			m.absProducts = map[uint64][]absProduct{}
		}
		m.absProducts[key] = append(m.absProducts[key], absProduct{x: X, p: p, bits: bits})
	}
	return symFloat{p, bits}, true
}

type absProduct struct {
	x, p *Term
	bits int
}
