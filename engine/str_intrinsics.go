package main

// Pure standard-library helpers that are executed natively on concrete
// arguments (strings, strconv, bytes, unicode, internal/bytealg), numeric
// placeholder tokens (vp.NumTok / vp.FloatTok) and the error-chain model
// (errors.Is / Wrap / Cause).

import (
	"bytes"
	"fmt"
	"go/token"
	"go/types"
	"math"
	"strconv"
	"strings"
	"unicode"
	"unicode/utf8"
)

func strSlice(v value) []string {
	sl := v.([]value)
	out := make([]string, len(sl))
	for i, e := range sl {
		out[i] = e.(string)
	}
	return out
}

func fromStrSlice(ss []string) value {
	out := make([]value, len(ss))
	for i, s := range ss {
		out[i] = s
	}
	return out
}

// byteSlice converts a []value of concrete bytes; ok=false if any is symbolic.
func byteSlice(v value) ([]byte, bool) {
	sl, ok := v.([]value)
	if !ok {
		return nil, false
	}
	out := make([]byte, len(sl))
	for i, e := range sl {
		b, ok := e.(uint8)
		if !ok {
			return nil, false
		}
		out[i] = b
	}
	return out, true
}

const tokPrefix = "@N"

func isPlaceholder(s string) bool {
	return strings.HasPrefix(s, tokPrefix) && strings.HasSuffix(s, "@") && len(s) > 3
}

func (m *Machine) tokenValue(s string) (value, bool) {
	v, ok := m.tokens[s]
	return v, ok
}

func (m *Machine) rangeErr(fn, s string) value {
	return m.newError("strconv." + fn + ": parsing " + strconv.Quote(s) + ": value out of range")
}

func (m *Machine) syntaxErr(fn, s string) value {
	return m.newError("strconv." + fn + ": parsing " + strconv.Quote(s) + ": invalid syntax")
}

func registerStrIntrinsics(reg func(string, intrinsic), used func(string, intrinsic) intrinsic) {
	vp := func(name string, f intrinsic) { reg(vpPath+"."+name, f) }

	// ---- placeholders ----
	vp("NumTok", func(m *Machine, fr *frame, a []value) value {
		t := m.newInput(a[0].(string), "int64", sortBV(64))
		if m.tokens == nil {
			m.tokens = map[string]value{}
		}
		name := fmt.Sprintf("%s%d@", tokPrefix, len(m.tokens))
		m.tokens[name] = symInt{t, types.Int64}
		return name
	})
	vp("FloatTok", func(m *Machine, fr *frame, a []value) value {
		t := m.newInput(a[0].(string), "f64", m.floatSort(64))
		if m.mode == ModeFP {
			m.addPC(m.tt.Not(m.tt.App("fp.isNaN", sortBool, t)))
		}
		if m.tokens == nil {
			m.tokens = map[string]value{}
		}
		name := fmt.Sprintf("%s%d@", tokPrefix, len(m.tokens))
		m.tokens[name] = symFloat{t, 64}
		return name
	})

	vp("AllocStart", func(m *Machine, fr *frame, a []value) value { return nil })
	vp("AssertAllocBelow", func(m *Machine, fr *frame, a []value) value { return nil })

	// ---- strconv ----
	parseInt := func(m *Machine, fn, s string, bits int, signed bool) value {
		if bits == 0 {
			bits = 64
		}
		if isPlaceholder(s) {
			v, ok := m.tokenValue(s)
			si, isInt := v.(symInt)
			if !ok || !isInt {
				return tuple{int64(0), m.syntaxErr(fn, s)}
			}
			m.h.noteStub("strconv on placeholder tokens: an arbitrary number of the requested width")
			// a decimal token of any 64-bit value: out of range for narrower types
			var lo, hi int64
			if signed {
				lo, hi = -(1 << uint(bits-1)), (1<<uint(bits-1))-1
				if bits == 64 {
					lo, hi = math.MinInt64, math.MaxInt64
				}
			} else {
				lo, hi = 0, math.MaxInt64
				if bits < 64 {
					hi = (1 << uint(bits)) - 1
				}
			}
			inRange := m.tt.And(m.tt.App("bvsge", sortBool, si.t, m.tt.BVLit(uint64(lo), 64)), m.tt.App("bvsle", sortBool, si.t, m.tt.BVLit(uint64(hi), 64)))
			if !m.branch(inRange) {
				if signed {
					return tuple{int64(0), m.rangeErr(fn, s)}
				}
				return tuple{uint64(0), m.rangeErr(fn, s)}
			}
			if signed {
				return tuple{symInt{si.t, types.Int64}, iface{}}
			}
			return tuple{symInt{si.t, types.Uint64}, iface{}}
		}
		if signed {
			v, err := strconv.ParseInt(s, 10, bits)
			if err != nil {
				return tuple{v, m.newError(err.Error())}
			}
			return tuple{v, iface{}}
		}
		v, err := strconv.ParseUint(s, 10, bits)
		if err != nil {
			return tuple{v, m.newError(err.Error())}
		}
		return tuple{v, iface{}}
	}
	reg("strconv.Atoi", func(m *Machine, fr *frame, a []value) value {
		r := parseInt(m, "Atoi", a[0].(string), 64, true).(tuple)
		switch v := r[0].(type) {
		case int64:
			return tuple{int(v), r[1]}
		case symInt:
			return tuple{symInt{v.t, types.Int}, r[1]}
		}
		panic(engineFault{"Atoi"})
	})
	reg("strconv.ParseInt", func(m *Machine, fr *frame, a []value) value {
		if b := a[1].(int); b != 10 && b != 0 {
			panic(pathEnd{status: StUnsupported, msg: "strconv.ParseInt base"})
		}
		return parseInt(m, "ParseInt", a[0].(string), a[2].(int), true)
	})
	reg("strconv.ParseUint", func(m *Machine, fr *frame, a []value) value {
		if b := a[1].(int); b != 10 && b != 0 {
			panic(pathEnd{status: StUnsupported, msg: "strconv.ParseUint base"})
		}
		return parseInt(m, "ParseUint", a[0].(string), a[2].(int), false)
	})
	reg("strconv.ParseFloat", func(m *Machine, fr *frame, a []value) value {
		s := a[0].(string)
		bits := a[1].(int)
		if isPlaceholder(s) {
			v, ok := m.tokenValue(s)
			if !ok {
				return tuple{float64(0), m.syntaxErr("ParseFloat", s)}
			}
			m.h.noteStub("strconv on placeholder tokens: an arbitrary number of the requested width")
			switch v := v.(type) {
			case symFloat:
				if bits == 32 {
					// value rounded to float32 precision, returned as float64
					r := m.conv(types.Typ[types.Float64], types.Typ[types.Float32], m.conv(types.Typ[types.Float32], types.Typ[types.Float64], v))
					return tuple{r, iface{}}
				}
				return tuple{v, iface{}}
			case symInt:
				return tuple{m.conv(types.Typ[types.Float64], types.Typ[types.Int64], v), iface{}}
			}
		}
		f, err := strconv.ParseFloat(s, bits)
		if err != nil {
			return tuple{f, m.newError(err.Error())}
		}
		return tuple{f, iface{}}
	})
	reg("strconv.Itoa", func(m *Machine, fr *frame, a []value) value {
		if isSym(a[0]) {
			return "<sym>"
		}
		return strconv.Itoa(a[0].(int))
	})
	reg("strconv.FormatInt", func(m *Machine, fr *frame, a []value) value {
		if isSym(a[0]) {
			return "<sym>"
		}
		return strconv.FormatInt(a[0].(int64), a[1].(int))
	})
	reg("strconv.FormatFloat", func(m *Machine, fr *frame, a []value) value {
		if isSym(a[0]) {
			return "<sym>"
		}
		return strconv.FormatFloat(a[0].(float64), a[1].(uint8), a[2].(int), a[3].(int))
	})
	reg("strconv.Quote", func(m *Machine, fr *frame, a []value) value { return strconv.Quote(a[0].(string)) })

	// ---- strings ----
	s1 := func(name string, f func(string) string) {
		reg(name, func(m *Machine, fr *frame, a []value) value { return f(a[0].(string)) })
	}
	s1("strings.TrimSpace", strings.TrimSpace)
	s1("strings.ToLower", strings.ToLower)
	s1("strings.ToUpper", strings.ToUpper)
	sb := func(name string, f func(string, string) bool) {
		reg(name, func(m *Machine, fr *frame, a []value) value { return f(a[0].(string), a[1].(string)) })
	}
	sb("strings.HasPrefix", strings.HasPrefix)
	sb("strings.HasSuffix", strings.HasSuffix)
	sb("strings.Contains", strings.Contains)
	sb("strings.EqualFold", strings.EqualFold)
	ss := func(name string, f func(string, string) string) {
		reg(name, func(m *Machine, fr *frame, a []value) value { return f(a[0].(string), a[1].(string)) })
	}
	ss("strings.Trim", strings.Trim)
	ss("strings.TrimLeft", strings.TrimLeft)
	ss("strings.TrimRight", strings.TrimRight)
	ss("strings.TrimPrefix", strings.TrimPrefix)
	ss("strings.TrimSuffix", strings.TrimSuffix)
	reg("strings.Fields", func(m *Machine, fr *frame, a []value) value { return fromStrSlice(strings.Fields(a[0].(string))) })
	reg("strings.Split", func(m *Machine, fr *frame, a []value) value {
		return fromStrSlice(strings.Split(a[0].(string), a[1].(string)))
	})
	reg("strings.SplitN", func(m *Machine, fr *frame, a []value) value {
		return fromStrSlice(strings.SplitN(a[0].(string), a[1].(string), a[2].(int)))
	})
	reg("strings.Join", func(m *Machine, fr *frame, a []value) value { return strings.Join(strSlice(a[0]), a[1].(string)) })
	reg("strings.Index", func(m *Machine, fr *frame, a []value) value { return strings.Index(a[0].(string), a[1].(string)) })
	reg("strings.IndexByte", func(m *Machine, fr *frame, a []value) value {
		return strings.IndexByte(a[0].(string), a[1].(uint8))
	})
	reg("strings.Repeat", func(m *Machine, fr *frame, a []value) value { return strings.Repeat(a[0].(string), a[1].(int)) })
	reg("strings.Replace", func(m *Machine, fr *frame, a []value) value {
		return strings.Replace(a[0].(string), a[1].(string), a[2].(string), a[3].(int))
	})
	reg("strings.ReplaceAll", func(m *Machine, fr *frame, a []value) value {
		return strings.ReplaceAll(a[0].(string), a[1].(string), a[2].(string))
	})
	reg("strings.Count", func(m *Machine, fr *frame, a []value) value { return strings.Count(a[0].(string), a[1].(string)) })

	// ---- unicode / utf8 ----
	ru := func(name string, f func(rune) bool) {
		reg(name, func(m *Machine, fr *frame, a []value) value { return f(rune(a[0].(int32))) })
	}
	ru("unicode.IsSpace", unicode.IsSpace)
	ru("unicode.IsDigit", unicode.IsDigit)
	ru("unicode.IsLetter", unicode.IsLetter)
	ru("unicode.IsUpper", unicode.IsUpper)
	ru("unicode.IsLower", unicode.IsLower)
	ru("unicode.IsPrint", unicode.IsPrint)
	reg("unicode/utf8.ValidString", func(m *Machine, fr *frame, a []value) value { return utf8.ValidString(a[0].(string)) })
	reg("unicode/utf8.RuneCountInString", func(m *Machine, fr *frame, a []value) value {
		return utf8.RuneCountInString(a[0].(string))
	})

	// ---- bytes / bytealg over possibly symbolic bytes ----
	indexByte := func(m *Machine, sl []value, c value) value {
		for i, e := range sl {
			eq := m.binop(token.EQL, nil, e, c)
			if m.truth(eq) {
				return i
			}
		}
		return -1
	}
	reg("internal/bytealg.IndexByte", func(m *Machine, fr *frame, a []value) value {
		return indexByte(m, a[0].([]value), a[1])
	})
	reg("bytes.IndexByte", func(m *Machine, fr *frame, a []value) value {
		return indexByte(m, a[0].([]value), a[1])
	})
	reg("internal/bytealg.IndexByteString", func(m *Machine, fr *frame, a []value) value {
		return strings.IndexByte(a[0].(string), a[1].(uint8))
	})
	bytesEqual := func(m *Machine, fr *frame, a []value) value {
		x, y := a[0].([]value), a[1].([]value)
		if len(x) != len(y) {
			return false
		}
		var acc value = true
		for i := range x {
			acc = m.andV(acc, m.binop(token.EQL, nil, x[i], y[i]))
		}
		return acc
	}
	reg("bytes.Equal", bytesEqual)
	reg("internal/bytealg.Equal", bytesEqual)
	reg("internal/bytealg.MakeNoZero", func(m *Machine, fr *frame, a []value) value {
		n := int(m.concInt(a[0], "MakeNoZero"))
		sl := make([]value, n)
		for i := range sl {
			sl[i] = uint8(0)
		}
		return sl
	})
	reg("bytes.TrimSpace", func(m *Machine, fr *frame, a []value) value {
		b, ok := byteSlice(a[0])
		if !ok {
			panic(pathEnd{status: StUnsupported, msg: "bytes.TrimSpace on symbolic bytes"})
		}
		sl := a[0].([]value)
		t := bytes.TrimSpace(b)
		if len(t) == 0 {
			return sl[:0]
		}
		start := bytes.Index(b, t)
		return sl[start : start+len(t)]
	})

	// ---- strings.Builder (the real one relies on unsafe) ----
	bbuf := func(a []value) *value {
		p := a[0].(*value)
		if p == nil {
			panic(targetPanic{v: "runtime error: invalid memory address or nil pointer dereference"})
		}
		return &(*p).(structure)[1]
	}
	appendBytes := func(m *Machine, dst *value, bs []value) {
		cur, _ := (*dst).([]value)
		*dst = append(cur, bs...)
	}
	reg("(*strings.Builder).WriteString", func(m *Machine, fr *frame, a []value) value {
		str := a[1].(string)
		bs := make([]value, len(str))
		for i := 0; i < len(str); i++ {
			bs[i] = str[i]
		}
		appendBytes(m, bbuf(a), bs)
		return tuple{len(str), iface{}}
	})
	reg("(*strings.Builder).Write", func(m *Machine, fr *frame, a []value) value {
		bs := a[1].([]value)
		appendBytes(m, bbuf(a), append([]value(nil), bs...))
		return tuple{len(bs), iface{}}
	})
	reg("(*strings.Builder).WriteByte", func(m *Machine, fr *frame, a []value) value {
		appendBytes(m, bbuf(a), []value{a[1]})
		return iface{}
	})
	reg("(*strings.Builder).WriteRune", func(m *Machine, fr *frame, a []value) value {
		str := string(rune(a[1].(int32)))
		bs := make([]value, len(str))
		for i := 0; i < len(str); i++ {
			bs[i] = str[i]
		}
		appendBytes(m, bbuf(a), bs)
		return tuple{len(str), iface{}}
	})
	reg("(*strings.Builder).String", func(m *Machine, fr *frame, a []value) value {
		cur, _ := (*bbuf(a)).([]value)
		b, ok := byteSlice(cur)
		if !ok {
			panic(pathEnd{status: StUnsupported, msg: "string built from symbolic bytes"})
		}
		return string(b)
	})
	reg("(*strings.Builder).Len", func(m *Machine, fr *frame, a []value) value {
		cur, _ := (*bbuf(a)).([]value)
		return len(cur)
	})
	reg("(*strings.Builder).Grow", func(m *Machine, fr *frame, a []value) value { return nil })
	reg("(*strings.Builder).Reset", func(m *Machine, fr *frame, a []value) value {
		*bbuf(a) = []value(nil)
		return nil
	})

	// ---- error chains ----
	reg("errors.Is", func(m *Machine, fr *frame, a []value) value { return m.errorsIs(a[0], a[1]) })
	reg("github.com/pkg/errors.Is", func(m *Machine, fr *frame, a []value) value { return m.errorsIs(a[0], a[1]) })
	reg("errors.Unwrap", func(m *Machine, fr *frame, a []value) value { return m.errCauseOf(a[0]) })
	reg("github.com/pkg/errors.Unwrap", func(m *Machine, fr *frame, a []value) value { return m.errCauseOf(a[0]) })
	wrap := func(m *Machine, err value, msg string) value {
		e := err.(iface)
		if e.t == nil {
			return iface{}
		}
		inner := ""
		if p, ok := e.v.(*value); ok {
			if st, ok := (*p).(structure); ok && len(st) > 0 {
				inner, _ = st[0].(string)
			}
		}
		w := m.newError(msg + ": " + inner).(iface)
		if m.errCause == nil {
			m.errCause = map[*value]iface{}
		}
		m.errCause[w.v.(*value)] = e
		return w
	}
	reg("github.com/pkg/errors.Wrap", func(m *Machine, fr *frame, a []value) value { return wrap(m, a[0], a[1].(string)) })
	reg("github.com/pkg/errors.Wrapf", func(m *Machine, fr *frame, a []value) value {
		return wrap(m, a[0], nativeSprintf(a[1].(string), a[2].([]value)))
	})
	reg("github.com/pkg/errors.WithMessage", func(m *Machine, fr *frame, a []value) value { return wrap(m, a[0], a[1].(string)) })
	reg("github.com/pkg/errors.Cause", func(m *Machine, fr *frame, a []value) value {
		cur := a[0].(iface)
		for {
			next := m.errCauseOf(cur).(iface)
			if next.t == nil {
				return cur
			}
			cur = next
		}
	})
	reg("github.com/unixpickle/essentials.AddCtx", func(m *Machine, fr *frame, a []value) value {
		return wrap(m, a[1], a[0].(string))
	})
	reg("github.com/unixpickle/essentials.AddCtxTo", func(m *Machine, fr *frame, a []value) value {
		p := a[1].(*value)
		*p = wrap(m, *p, a[0].(string))
		return nil
	})
}

func (m *Machine) errCauseOf(e value) value {
	itf := e.(iface)
	if itf.t == nil {
		return iface{}
	}
	if p, ok := itf.v.(*value); ok {
		if c, ok := m.errCause[p]; ok {
			return c
		}
	}
	return iface{}
}

func (m *Machine) errorsIs(err, target value) value {
	cur := err.(iface)
	tg := target.(iface)
	for cur.t != nil {
		if tg.t != nil && sameType(cur.t, tg.t) {
			if cp, ok := cur.v.(*value); ok {
				if tp, ok := tg.v.(*value); ok && cp == tp {
					return true
				}
			}
		}
		cur = m.errCauseOf(cur).(iface)
	}
	return tg.t == nil && err.(iface).t == nil
}
