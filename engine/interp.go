package main

// SSA interpreter core (structure after x/tools/go/ssa/interp).

import (
	"fmt"
	"go/token"
	"go/types"
	"runtime/debug"
	"strings"

	"golang.org/x/tools/go/ssa"
)

type continuation int

const (
	kNext continuation = iota
	kReturn
	kJump
)

type deferred struct {
	fn    value
	args  []value
	instr *ssa.Defer
	tail  *deferred
}

type frame struct {
	m                *Machine
	caller           *frame
	fn               *ssa.Function
	block, prevBlock *ssa.BasicBlock
	env              map[ssa.Value]value
	locals           []value
	defers           *deferred
	result           value
	panicking        bool
	panic            interface{}
	phitemps         []value
	curInstr         ssa.Instruction
	skipPhis         bool
	depth            int
}

func mustDeref(t types.Type) types.Type {
	if p, ok := t.Underlying().(*types.Pointer); ok {
		return p.Elem()
	}
	panic(engineFault{fmt.Sprintf("mustDeref: %s", t)})
}

func (fr *frame) get(key ssa.Value) value {
	switch key := key.(type) {
	case nil:
		return nil
	case *ssa.Function, *ssa.Builtin:
		return key
	case *ssa.Const:
		return constValue(key)
	case *ssa.Global:
		return fr.m.eng.global(key)
	}
	if r, ok := fr.env[key]; ok {
		return r
	}
	panic(engineFault{fmt.Sprintf("get: no value for %T: %v in %s", key, key.Name(), fr.fn)})
}

func (fr *frame) runDefer(d *deferred) {
	var ok bool
	defer func() {
		if !ok {
			r := recover()
			if isControl(r) {
				panic(r)
			}
			fr.panicking = true
			fr.panic = r
		}
	}()
	fr.m.call(fr, d.instr.Pos(), d.fn, d.args)
	ok = true
}

func (fr *frame) runDefers() {
	for d := fr.defers; d != nil; d = d.tail {
		fr.runDefer(d)
	}
	fr.defers = nil
	if fr.panicking {
		panic(fr.panic)
	}
}

// isControl: panics that must not be intercepted by target-level recover.
func isControl(r interface{}) bool {
	switch r.(type) {
	case pathEnd, engineFault, killGoroutine:
		return true
	}
	return false
}

func (m *Machine) lookupMethod(typ types.Type, meth *types.Func) *ssa.Function {
	return m.eng.prog.LookupMethod(typ, meth.Pkg(), meth.Name())
}

func (m *Machine) visitInstr(fr *frame, instr ssa.Instruction) continuation {
	m.steps++
	if m.steps > m.stepLimit {
		panic(pathEnd{status: StUnwind, msg: fmt.Sprintf("step limit %d exceeded", m.stepLimit)})
	}
	fr.curInstr = instr
	switch instr := instr.(type) {
	case *ssa.DebugRef:
		// no-op

	case *ssa.UnOp:
		fr.env[instr] = m.unop(fr, instr, fr.get(instr.X))

	case *ssa.BinOp:
		fr.env[instr] = m.binop(instr.Op, instr.X.Type(), fr.get(instr.X), fr.get(instr.Y))

	case *ssa.Call:
		fn, args := m.prepareCall(fr, &instr.Call)
		fr.env[instr] = m.call(fr, instr.Pos(), fn, args)
		m.curFrame = fr

	case *ssa.ChangeInterface:
		fr.env[instr] = fr.get(instr.X)

	case *ssa.ChangeType:
		fr.env[instr] = fr.get(instr.X)

	case *ssa.Convert:
		fr.env[instr] = m.conv(instr.Type(), instr.X.Type(), fr.get(instr.X))

	case *ssa.SliceToArrayPointer:
		fr.env[instr] = sliceToArrayPointer(instr.Type(), instr.X.Type(), fr.get(instr.X))

	case *ssa.MakeInterface:
		fr.env[instr] = iface{t: instr.X.Type(), v: fr.get(instr.X)}

	case *ssa.Extract:
		fr.env[instr] = fr.get(instr.Tuple).(tuple)[instr.Index]

	case *ssa.Slice:
		fr.env[instr] = m.slice(fr.get(instr.X), fr.get(instr.Low), fr.get(instr.High), fr.get(instr.Max))

	case *ssa.Return:
		switch len(instr.Results) {
		case 0:
		case 1:
			fr.result = fr.get(instr.Results[0])
		default:
			var res []value
			for _, r := range instr.Results {
				res = append(res, fr.get(r))
			}
			fr.result = tuple(res)
		}
		fr.block = nil
		return kReturn

	case *ssa.RunDefers:
		fr.runDefers()

	case *ssa.Panic:
		panic(targetPanic{fr.get(instr.X)})

	case *ssa.Send:
		m.chanSend(fr.get(instr.Chan).(*schan), fr.get(instr.X))

	case *ssa.Store:
		if sr, ok := fr.get(instr.Addr).(*symRef); ok {
			m.symRefStore(sr, fr.get(instr.Val))
			break
		}
		addr := fr.get(instr.Addr).(*value)
		if addr == nil {
			panic(targetPanic{v: "runtime error: invalid memory address or nil pointer dereference"})
		}
		if m.exploreSched {
			m.recordValueAccess("write", addr)
		}
		store(nil, addr, fr.get(instr.Val))

	case *ssa.If:
		c := fr.get(instr.Cond)
		var taken bool
		switch c := c.(type) {
		case bool:
			taken = c
		case symBool:
			if m.tryIfConvert(fr, instr, c.t) {
				return kJump
			}
			taken = m.branch(c.t)
		default:
			panic(engineFault{fmt.Sprintf("If on %T", c)})
		}
		succ := 1
		if taken {
			succ = 0
		}
		fr.prevBlock, fr.block = fr.block, fr.block.Succs[succ]
		return kJump

	case *ssa.Jump:
		fr.prevBlock, fr.block = fr.block, fr.block.Succs[0]
		return kJump

	case *ssa.Defer:
		fn, args := m.prepareCall(fr, &instr.Call)
		defers := &fr.defers
		if instr.DeferStack != nil {
			if into := fr.get(instr.DeferStack); into != nil {
				defers = into.(**deferred)
			}
		}
		*defers = &deferred{fn: fn, args: args, instr: instr, tail: *defers}

	case *ssa.Go:
		fn, args := m.prepareCall(fr, &instr.Call)
		m.spawn(fn, args, instr.Pos())
		if m.exploreSched {
			m.record("spawn", nil, len(m.sched.gors)-1)
		}

	case *ssa.MakeChan:
		fr.env[instr] = &schan{cap: int(m.concInt(fr.get(instr.Size), "channel size")),
			elem: instr.Type().Underlying().(*types.Chan).Elem()}

	case *ssa.Alloc:
		var addr *value
		if instr.Heap {
			addr = new(value)
			fr.env[instr] = addr
		} else {
			addr = fr.env[instr].(*value)
		}
		*addr = zero(mustDeref(instr.Type()))

	case *ssa.MakeSlice:
		lenV, capV := fr.get(instr.Len), fr.get(instr.Cap)
		if si, ok := lenV.(symInt); ok {
			lenV = m.symbolicMakeLen(si)
			if cs, ok := capV.(symInt); ok && cs.t == si.t {
				capV = lenV
			}
		}
		if si, ok := capV.(symInt); ok {
			capV = m.symbolicMakeLen(si)
		}
		n := m.concInt(capV, "make cap")
		l := m.concInt(lenV, "make len")
		if l < 0 || n < l {
			panic(targetPanic{v: "runtime error: makeslice: len out of range"})
		}
		if n > m.h.maxAlloc {
			panic(targetPanic{v: fmt.Sprintf("vp: allocation of %d elements exceeds the harness limit", n)})
		}
		sl := make([]value, n)
		tElt := instr.Type().Underlying().(*types.Slice).Elem()
		for i := range sl {
			sl[i] = zero(tElt)
		}
		fr.env[instr] = sl[:l]

	case *ssa.MakeMap:
		fr.env[instr] = newSmap(instr.Type().Underlying().(*types.Map).Key())

	case *ssa.Range:
		if sm, ok := fr.get(instr.X).(*smap); ok && m.exploreSched {
			m.record("mread", sm, 0)
		}
		fr.env[instr] = m.rangeIter(fr, fr.get(instr.X), instr.X.Type())

	case *ssa.Next:
		fr.env[instr] = fr.get(instr.Iter).(iter).next(m)

	case *ssa.FieldAddr:
		if sr, ok := fr.get(instr.X).(*symRef); ok {
			fr.env[instr] = sr.extend(instr.Field)
			break
		}
		p := fr.get(instr.X).(*value)
		if p == nil {
			panic(targetPanic{v: "runtime error: invalid memory address or nil pointer dereference"})
		}
		fr.env[instr] = &(*p).(structure)[instr.Field]

	case *ssa.Field:
		fr.env[instr] = fr.get(instr.X).(structure)[instr.Field]

	case *ssa.IndexAddr:
		x := fr.get(instr.X)
		var elems []value
		switch x := x.(type) {
		case []value:
			elems = x
		case *value: // *array
			if x == nil {
				panic(targetPanic{v: "runtime error: invalid memory address or nil pointer dereference"})
			}
			elems = (*x).(array)
		case *symRef:
			if isSym(fr.get(instr.Index)) {
				panic(pathEnd{status: StUnsupported, msg: "nested symbolic array index"})
			}
			fr.env[instr] = x.extend(int(asInt64(fr.get(instr.Index))))
			return kNext
		default:
			panic(engineFault{fmt.Sprintf("unexpected x type in IndexAddr: %T", x)})
		}
		if si, ok := fr.get(instr.Index).(symInt); ok && len(elems) > 1 && !m.h.noSymRef {
			m.checkIndexRange(si, len(elems))
			fr.env[instr] = &symRef{elems: elems, idx: si}
			break
		}
		i := m.concIndex(fr.get(instr.Index), len(elems))
		fr.env[instr] = &elems[i]

	case *ssa.Index:
		x := fr.get(instr.X)
		idx := fr.get(instr.Index)
		switch x := x.(type) {
		case array:
			if si, ok := idx.(symInt); ok {
				if v, ok := m.symIndexRead(si, []value(x)); ok {
					fr.env[instr] = v
					break
				}
			}
			fr.env[instr] = x[m.concIndex(idx, len(x))]
		case string:
			fr.env[instr] = x[m.concIndex(idx, len(x))]
		default:
			panic(engineFault{fmt.Sprintf("unexpected x type in Index: %T", x)})
		}

	case *ssa.Lookup:
		if sm, ok := fr.get(instr.X).(*smap); ok && m.exploreSched {
			m.record("mread", sm, 0)
		}
		fr.env[instr] = m.lookup(instr, fr.get(instr.X), fr.get(instr.Index))

	case *ssa.MapUpdate:
		mp := fr.get(instr.Map).(*smap)
		if m.exploreSched {
			m.record("mwrite", mp, 0)
		}
		mp.insert(m, fr.get(instr.Key), copyVal(fr.get(instr.Value)))

	case *ssa.TypeAssert:
		fr.env[instr] = m.typeAssert(instr, fr.get(instr.X).(iface))

	case *ssa.MakeClosure:
		var bindings []value
		for _, binding := range instr.Bindings {
			bindings = append(bindings, fr.get(binding))
		}
		fr.env[instr] = &closure{instr.Fn.(*ssa.Function), bindings}

	case *ssa.Phi:
		panic(engineFault{"phi reached"})

	case *ssa.Select:
		fr.env[instr] = m.selectOp(instr, fr)

	default:
		panic(engineFault{fmt.Sprintf("unexpected instruction: %T", instr)})
	}
	return kNext
}

// concInt forces an integer to a concrete value (forking over feasible values
// when symbolic, bounded).
func (m *Machine) concInt(v value, what string) int64 {
	if si, ok := v.(symInt); ok {
		return m.concretize(si, what)
	}
	return asInt64(v)
}

// concretize enumerates the feasible values of a symbolic int (bounded).
func (m *Machine) concretize(si symInt, what string) int64 {
	bits, signed := kindBits(si.kind)
	// decision replay: the decision index encodes the value via a per-path list
	pos := len(m.decisions)
	if pos < len(m.prefix) {
		// value stored as decision (offset by 1<<20 to tell it apart is unnecessary)
		d := m.prefix[pos]
		m.decisions = append(m.decisions, d)
		val := int64(d)
		m.addPC(m.tt.Eq(si.t, m.tt.BVLit(uint64(val), bits)))
		return val
	}
	// enumerate models
	var vals []int64
	m.solver.Push()
	for len(vals) <= m.h.maxConcretize {
		r := m.solver.Check()
		if r == Unknown {
			m.solver.Pop()
			panic(pathEnd{status: StUnknown, msg: "solver unknown while concretizing " + what})
		}
		if r == Unsat {
			break
		}
		mv := m.solver.Values([]*Term{si.t})
		var text string
		for _, v := range mv {
			text = v
		}
		u, ok := parseBV(text)
		if !ok {
			m.solver.Pop()
			panic(engineFault{"cannot parse model value " + text})
		}
		var val int64
		if signed && bits < 64 && u&(1<<uint(bits-1)) != 0 {
			val = int64(u) - (1 << uint(bits))
		} else {
			val = int64(u)
		}
		vals = append(vals, val)
		m.solver.Assert(m.tt.Not(m.tt.Eq(si.t, m.tt.BVLit(u, bits))))
	}
	m.solver.Pop()
	if len(vals) == 0 {
		panic(pathEnd{status: StInfeasible, msg: "no value for " + what})
	}
	if len(vals) > m.h.maxConcretize {
		panic(pathEnd{status: StUnsupported, msg: fmt.Sprintf("symbolic %s has more than %d feasible values", what, m.h.maxConcretize)})
	}
	for _, v := range vals[1:] {
		if v < 0 || v > 1<<30 {
			// decisions are ints; large values are stored as-is (int is 64-bit)
		}
		alt := make([]int, pos+1)
		copy(alt, m.decisions)
		alt[pos] = int(v)
		m.pending = append(m.pending, alt)
	}
	m.decisions = append(m.decisions, int(vals[0]))
	m.addPC(m.tt.Eq(si.t, m.tt.BVLit(uint64(vals[0]), bits)))
	return vals[0]
}

func parseBV(text string) (uint64, bool) {
	var u uint64
	switch {
	case strings.HasPrefix(text, "#x"):
		_, err := fmt.Sscanf(text[2:], "%x", &u)
		return u, err == nil
	case strings.HasPrefix(text, "#b"):
		_, err := fmt.Sscanf(text[2:], "%b", &u)
		return u, err == nil
	}
	return 0, false
}

// concIndex returns a concrete in-range index (panic path if out of range).
func (m *Machine) concIndex(idx value, n int) int {
	if si, ok := idx.(symInt); ok {
		oob := m.oobTerm(si, n)
		if m.branch(oob) {
			panic(targetPanic{v: fmt.Sprintf("runtime error: index out of range [symbolic] with length %d", n)})
		}
		return int(m.concretize(si, "index"))
	}
	i := asInt64(idx)
	if i < 0 || i >= int64(n) {
		panic(targetPanic{v: fmt.Sprintf("runtime error: index out of range [%d] with length %d", i, n)})
	}
	return int(i)
}

// symIndexRead reads elems[idx] as an ite chain when all elements merge.
func (m *Machine) symIndexRead(si symInt, elems []value) (value, bool) {
	n := len(elems)
	if n == 0 || n > 4096 {
		return nil, false
	}
	for _, e := range elems {
		switch e.(type) {
		case structure, array, bool, symBool, symInt, symFloat, float64, float32:
		default:
			if !isIntVal(e) {
				return nil, false
			}
		}
	}
	oob := m.oobTerm(si, n)
	if m.branch(oob) {
		panic(targetPanic{v: fmt.Sprintf("runtime error: index out of range [symbolic] with length %d", n)})
	}
	return m.selectTree(si, n, func(i int) value { return elems[i] })
}

// selectTree builds a balanced ite tree over the bits of the index.
func (m *Machine) selectTree(si symInt, n int, elem func(i int) value) (value, bool) {
	bits, _ := kindBits(si.kind)
	top := 0
	for (1 << uint(top)) < n {
		top++
	}
	okAll := true
	bitCond := make([]*Term, top)
	for b := 0; b < top; b++ {
		bitCond[b] = m.tt.Eq(m.tt.App(fmt.Sprintf("(_ extract %d %d)", b, b), sortBV(1), si.t), m.tt.BVLit(1, 1))
	}
	_ = bits
	var build func(lo, hi, b int) value
	build = func(lo, hi, b int) value {
		if hi-lo <= 1 || b < 0 {
			return elem(lo)
		}
		mid := lo + (1 << uint(b))
		if mid >= hi {
			return build(lo, hi, b-1)
		}
		lowV := build(lo, mid, b-1)
		highV := build(mid, hi, b-1)
		if !okAll {
			return lowV
		}
		r, ok := m.mergeValues(bitCond[b], highV, lowV)
		if !ok {
			okAll = false
			return lowV
		}
		return r
	}
	res := build(0, n, top-1)
	if !okAll {
		return nil, false
	}
	return res, true
}

func (m *Machine) slice(x, lo, hi, max value) value {
	var Len, Cap int
	switch x := x.(type) {
	case string:
		Len = len(x)
		Cap = Len
	case []value:
		Len = len(x)
		Cap = cap(x)
	case *value:
		if x == nil {
			panic(targetPanic{v: "runtime error: invalid memory address or nil pointer dereference"})
		}
		a := (*x).(array)
		Len = len(a)
		Cap = cap(a)
	}
	l := int64(0)
	if lo != nil {
		l = m.concInt(lo, "slice low")
	}
	h := int64(Len)
	if hi != nil {
		h = m.concInt(hi, "slice high")
	}
	mx := int64(Cap)
	if max != nil {
		mx = m.concInt(max, "slice max")
	}
	if l < 0 || h < l || mx < h || mx > int64(Cap) {
		panic(targetPanic{v: fmt.Sprintf("runtime error: slice bounds out of range [%d:%d:%d] with capacity %d", l, h, mx, Cap)})
	}
	switch x := x.(type) {
	case string:
		if h > int64(Len) {
			panic(targetPanic{v: fmt.Sprintf("runtime error: slice bounds out of range [:%d] with length %d", h, Len)})
		}
		return x[l:h]
	case []value:
		return x[l:h:mx]
	case *value:
		a := (*x).(array)
		return []value(a)[l:h:mx]
	}
	panic(engineFault{fmt.Sprintf("slice: unexpected X type: %T", x)})
}

func (m *Machine) lookup(instr *ssa.Lookup, x, idx value) value {
	switch x := x.(type) {
	case *smap:
		v, ok := x.lookup(m, idx)
		if !ok {
			v = zero(instr.X.Type().Underlying().(*types.Map).Elem())
		} else {
			v = copyVal(v)
		}
		if instr.CommaOk {
			return tuple{v, ok}
		}
		return v
	case string:
		return x[m.concIndex(idx, len(x))]
	}
	panic(engineFault{fmt.Sprintf("unexpected x type in Lookup: %T", x)})
}

func (m *Machine) unop(fr *frame, instr *ssa.UnOp, x value) value {
	switch instr.Op {
	case token.ARROW:
		v, ok := m.chanRecv(x.(*schan))
		if !ok {
			v = zero(instr.X.Type().Underlying().(*types.Chan).Elem())
		}
		if instr.CommaOk {
			return tuple{v, ok}
		}
		return v
	case token.MUL:
		if sr, ok := x.(*symRef); ok {
			return m.symRefLoad(sr)
		}
		p := x.(*value)
		if p == nil {
			panic(targetPanic{v: "runtime error: invalid memory address or nil pointer dereference"})
		}
		if m.exploreSched {
			m.recordValueAccess("read", p)
		}
		return load(nil, p)
	}
	if isSym(x) {
		return m.unopArith(instr.Op, x)
	}
	switch instr.Op {
	case token.SUB:
		switch x := x.(type) {
		case int:
			return -x
		case int8:
			return -x
		case int16:
			return -x
		case int32:
			return -x
		case int64:
			return -x
		case uint:
			return -x
		case uint8:
			return -x
		case uint16:
			return -x
		case uint32:
			return -x
		case uint64:
			return -x
		case uintptr:
			return -x
		case float32:
			return -x
		case float64:
			return -x
		case complex64:
			return -x
		case complex128:
			return -x
		}
	case token.NOT:
		return !x.(bool)
	case token.XOR:
		switch x := x.(type) {
		case int:
			return ^x
		case int8:
			return ^x
		case int16:
			return ^x
		case int32:
			return ^x
		case int64:
			return ^x
		case uint:
			return ^x
		case uint8:
			return ^x
		case uint16:
			return ^x
		case uint32:
			return ^x
		case uint64:
			return ^x
		case uintptr:
			return ^x
		}
	}
	panic(engineFault{fmt.Sprintf("invalid unary op %s %T", instr.Op, x)})
}

func (m *Machine) typeAssert(instr *ssa.TypeAssert, itf iface) value {
	var v value
	err := ""
	if itf.t == nil {
		err = fmt.Sprintf("interface conversion: interface is nil, not %s", instr.AssertedType)
	} else if idst, ok := instr.AssertedType.Underlying().(*types.Interface); ok {
		v = itf
		if meth, _ := types.MissingMethod(itf.t, idst, true); meth != nil {
			err = fmt.Sprintf("interface conversion: %v is not %v: missing method %s", itf.t, idst, meth.Name())
		}
	} else if types.Identical(itf.t, instr.AssertedType) {
		v = itf.v
	} else {
		err = fmt.Sprintf("interface conversion: interface is %s, not %s", itf.t, instr.AssertedType)
	}
	if err != "" {
		if !instr.CommaOk {
			panic(targetPanic{v: err})
		}
		return tuple{zero(instr.AssertedType), false}
	}
	if instr.CommaOk {
		return tuple{v, true}
	}
	return v
}

func (m *Machine) rangeIter(fr *frame, x value, t types.Type) iter {
	switch x := x.(type) {
	case *smap:
		// nondeterministic order only for range statements written in the
		// named function itself (or a closure nested in it), not in callees
		nd := false
		for fn := fr.fn; fn != nil; fn = fn.Parent() {
			if m.nondetMapFns[fn.Name()] {
				nd = true
				break
			}
		}
		return &mapIter{sm: x, nondet: nd}
	case string:
		return &stringIter{Reader: strings.NewReader(x)}
	}
	panic(engineFault{fmt.Sprintf("cannot range over %T", x)})
}

func (m *Machine) prepareCall(fr *frame, call *ssa.CallCommon) (fn value, args []value) {
	v := fr.get(call.Value)
	if call.Method == nil {
		fn = v
	} else {
		recv := v.(iface)
		if recv.t == nil {
			panic(targetPanic{v: "runtime error: invalid memory address or nil pointer dereference (method call on nil interface)"})
		}
		f := m.lookupMethod(recv.t, call.Method)
		if f == nil {
			panic(engineFault{fmt.Sprintf("method set for dynamic type %v does not contain %s", recv.t, call.Method)})
		}
		fn = f
		args = append(args, recv.v)
	}
	for _, arg := range call.Args {
		args = append(args, fr.get(arg))
	}
	return
}

func (m *Machine) call(caller *frame, callpos token.Pos, fn value, args []value) value {
	switch fn := fn.(type) {
	case *ssa.Function:
		if fn == nil {
			panic(targetPanic{v: "runtime error: invalid memory address or nil pointer dereference (call of nil func)"})
		}
		return m.callSSA(caller, callpos, fn, args, nil)
	case *closure:
		if fn == nil {
			panic(targetPanic{v: "runtime error: invalid memory address or nil pointer dereference (call of nil func)"})
		}
		return m.callSSA(caller, callpos, fn.Fn, args, fn.Env)
	case *ssa.Builtin:
		return m.callBuiltin(caller, callpos, fn, args)
	}
	panic(engineFault{fmt.Sprintf("cannot call %T", fn)})
}

func (m *Machine) callSSA(caller *frame, callpos token.Pos, fn *ssa.Function, args []value, env []value) value {
	fr := &frame{m: m, caller: caller, fn: fn}
	if caller != nil {
		fr.depth = caller.depth + 1
		if fr.depth > m.h.maxDepth {
			panic(pathEnd{status: StUnwind, msg: fmt.Sprintf("call depth %d exceeded in %s", m.h.maxDepth, fn)})
		}
	}
	m.curFrame = fr
	if m.funcsSeen != nil {
		m.funcsSeen[fn] = true
	}
	if fn.Name() == "init" && fn.Pkg != nil && !inModule(fn.Pkg) && fn.Parent() == nil && !initAllowed[fn.Pkg.Pkg.Path()] {
		m.curFrame = caller
		return nil
	}
	if fn.Parent() == nil {
		ext, seen := m.intrCache[fn]
		if !seen {
			name := fn.String()
			if fn.Origin() != nil {
				name = fn.Origin().String()
			}
			ext = intrinsics[name]
			if m.intrCache == nil {
				m.intrCache = map[*ssa.Function]intrinsic{}
			}
			m.intrCache[fn] = ext
		}
		if ext != nil {
			res := ext(m, fr, args)
			m.curFrame = caller
			return res
		}
		if fn.Blocks == nil {
			panic(pathEnd{status: StUnsupported, msg: "no code for function: " + fn.String()})
		}
	}
	if fn.TypeParams().Len() > 0 && len(fn.TypeArgs()) == 0 {
		panic(engineFault{"uninstantiated generic " + fn.String()})
	}
	if debugTrace {
		fmt.Printf("%*scall %s\n", fr.depth, "", fn)
	}
	fr.env = make(map[ssa.Value]value, 16)
	fr.block = fn.Blocks[0]
	fr.locals = make([]value, len(fn.Locals))
	for i, l := range fn.Locals {
		fr.locals[i] = zero(mustDeref(l.Type()))
		fr.env[l] = &fr.locals[i]
	}
	for i, p := range fn.Params {
		fr.env[p] = args[i]
	}
	for i, fv := range fn.FreeVars {
		fr.env[fv] = env[i]
	}
	for fr.block != nil {
		m.runFrame(fr)
	}
	m.curFrame = caller
	return fr.result
}

func (m *Machine) runFrame(fr *frame) {
	defer func() {
		if fr.block == nil {
			return // normal return
		}
		r := recover()
		if isControl(r) {
			panic(r)
		}
		if _, ok := r.(targetPanic); !ok {
			// a Go runtime error inside the engine: report as a fault
			panic(engineFault{fmt.Sprintf("%v in %s\n%s", r, fr.fn, debug.Stack())})
		}
		fr.panicking = true
		fr.panic = r
		fr.runDefers()
		fr.block = fr.fn.Recover
		if fr.block == nil {
			// recovered, no named results: return zero values
			fr.result = zeroResults(fr.fn)
		}
	}()

	for {
		var nonPhis []ssa.Instruction
		if fr.skipPhis {
			fr.skipPhis = false
			nonPhis = nonPhiInstrs(fr.block)
		} else {
			nonPhis = m.executePhis(fr)
		}
		for _, instr := range nonPhis {
			if m.visitInstr(fr, instr) == kReturn {
				return
			}
		}
	}
}

func zeroResults(fn *ssa.Function) value {
	res := fn.Signature.Results()
	switch res.Len() {
	case 0:
		return nil
	case 1:
		return zero(res.At(0).Type())
	}
	t := make(tuple, res.Len())
	for i := range t {
		t[i] = zero(res.At(i).Type())
	}
	return t
}

func nonPhiInstrs(b *ssa.BasicBlock) []ssa.Instruction {
	for i, instr := range b.Instrs {
		if _, ok := instr.(*ssa.Phi); !ok {
			return b.Instrs[i:]
		}
	}
	return nil
}

func (m *Machine) executePhis(fr *frame) []ssa.Instruction {
	firstNonPhi := -1
	for i, instr := range fr.block.Instrs {
		if _, ok := instr.(*ssa.Phi); !ok {
			firstNonPhi = i
			break
		}
	}
	nonPhis := fr.block.Instrs[firstNonPhi:]
	if firstNonPhi > 0 {
		phis := fr.block.Instrs[:firstNonPhi]
		predIndex := -1
		for i, p := range fr.block.Preds {
			if p == fr.prevBlock {
				predIndex = i
				break
			}
		}
		fr.phitemps = fr.phitemps[:0]
		for _, phi := range phis {
			fr.phitemps = append(fr.phitemps, fr.get(phi.(*ssa.Phi).Edges[predIndex]))
		}
		for i, phi := range phis {
			fr.env[phi.(*ssa.Phi)] = fr.phitemps[i]
		}
	}
	return nonPhis
}

func (m *Machine) doRecover(caller *frame) value {
	if caller != nil && !caller.panicking && caller.caller != nil && caller.caller.panicking {
		caller.caller.panicking = false
		p := caller.caller.panic
		caller.caller.panic = nil
		switch p := p.(type) {
		case targetPanic:
			if s, ok := p.v.(string); ok {
				// runtime-style error: box as a runtime error string
				return iface{t: types.Typ[types.String], v: s}
			}
			return p.v
		default:
			panic(engineFault{fmt.Sprintf("unexpected panic type %T in recover()", p)})
		}
	}
	return iface{}
}

func (m *Machine) callBuiltin(caller *frame, callpos token.Pos, fn *ssa.Builtin, args []value) value {
	switch fn.Name() {
	case "append":
		if len(args) == 1 {
			return args[0]
		}
		if s, ok := args[1].(string); ok {
			arg0 := args[0].([]value)
			for i := 0; i < len(s); i++ {
				arg0 = append(arg0, s[i])
			}
			return arg0
		}
		src := args[1].([]value)
		dst := args[0].([]value)
		for _, e := range src {
			dst = append(dst, copyVal(e))
		}
		return dst

	case "copy":
		src := args[1]
		if s, ok := src.(string); ok {
			var b []value
			for i := 0; i < len(s); i++ {
				b = append(b, s[i])
			}
			src = b
		}
		d := args[0].([]value)
		s := src.([]value)
		n := len(d)
		if len(s) < n {
			n = len(s)
		}
		tmp := make([]value, n)
		for i := 0; i < n; i++ {
			tmp[i] = copyVal(s[i])
		}
		copy(d, tmp)
		return n

	case "close":
		m.chanClose(args[0].(*schan))
		return nil

	case "delete":
		if m.exploreSched {
			m.record("mwrite", args[0].(*smap), 0)
		}
		args[0].(*smap).delete(m, args[1])
		return nil

	case "print", "println":
		return nil

	case "len":
		switch x := args[0].(type) {
		case string:
			return len(x)
		case array:
			return len(x)
		case *value:
			return len((*x).(array))
		case []value:
			return len(x)
		case *smap:
			return x.len()
		case *schan:
			if x == nil {
				return 0
			}
			return len(x.buf)
		default:
			panic(engineFault{fmt.Sprintf("len: illegal operand: %T", x)})
		}

	case "cap":
		switch x := args[0].(type) {
		case array:
			return cap(x)
		case *value:
			return cap((*x).(array))
		case []value:
			return cap(x)
		case *schan:
			if x == nil {
				return 0
			}
			return x.cap
		default:
			panic(engineFault{fmt.Sprintf("cap: illegal operand: %T", x)})
		}

	case "min", "max":
		x := args[0]
		for _, y := range args[1:] {
			if isFloatVal(x) {
				if fn.Name() == "min" {
					x = m.mathMinMax(x, y, true)
				} else {
					x = m.mathMinMax(x, y, false)
				}
				continue
			}
			var c value
			if fn.Name() == "min" {
				c = m.binop(token.LSS, nil, y, x)
			} else {
				c = m.binop(token.GTR, nil, y, x)
			}
			switch c := c.(type) {
			case bool:
				if c {
					x = y
				}
			case symBool:
				r, ok := m.mergeValues(c.t, y, x)
				if !ok {
					panic(engineFault{"min/max merge"})
				}
				x = r
			}
		}
		return x

	case "real":
		switch c := args[0].(type) {
		case complex64:
			return real(c)
		case complex128:
			return real(c)
		}
	case "imag":
		switch c := args[0].(type) {
		case complex64:
			return imag(c)
		case complex128:
			return imag(c)
		}
	case "complex":
		switch f := args[0].(type) {
		case float32:
			return complex(f, args[1].(float32))
		case float64:
			return complex(f, args[1].(float64))
		}
		panic(pathEnd{status: StUnsupported, msg: "complex() of symbolic value"})

	case "panic":
		panic(targetPanic{args[0]})

	case "recover":
		return m.doRecover(caller)

	case "ssa:wrapnilchk":
		recv := args[0]
		if recv.(*value) == nil {
			panic(targetPanic{v: fmt.Sprintf("value method (%s).%s called using nil *%s pointer", args[1], args[2], args[1])})
		}
		return recv

	case "ssa:deferstack":
		return &caller.defers
	}
	panic(engineFault{"unknown built-in: " + fn.Name()})
}

// ---------------------------------------------------------------------
// if-conversion

type armInfo struct {
	ok    bool
	tArm  *ssa.BasicBlock // nil if the edge goes directly to join
	fArm  *ssa.BasicBlock
	join  *ssa.BasicBlock
}

func (e *Engine) ifInfo(instr *ssa.If) *armInfo {
	e.mu.Lock()
	defer e.mu.Unlock()
	if ai, ok := e.ifCache[instr]; ok {
		return ai
	}
	ai := &armInfo{}
	b := instr.Block()
	T, F := b.Succs[0], b.Succs[1]
	pureArm := func(a *ssa.BasicBlock) *ssa.BasicBlock {
		if len(a.Preds) != 1 || len(a.Instrs) > 48 {
			return nil
		}
		for i, in := range a.Instrs {
			if i == len(a.Instrs)-1 {
				if _, ok := in.(*ssa.Jump); ok {
					return a.Succs[0]
				}
				return nil
			}
			if !pureInstr(in) {
				return nil
			}
		}
		return nil
	}
	jt, jf := pureArm(T), pureArm(F)
	switch {
	case jt != nil && jf != nil && jt == jf && T != F:
		ai.ok, ai.tArm, ai.fArm, ai.join = true, T, F, jt
	case jt != nil && jt == F:
		ai.ok, ai.tArm, ai.fArm, ai.join = true, T, nil, F
	case jf != nil && jf == T:
		ai.ok, ai.tArm, ai.fArm, ai.join = true, nil, F, T
	}
	if ai.ok && ai.join == b {
		ai.ok = false
	}
	e.ifCache[instr] = ai
	return ai
}

func pureInstr(in ssa.Instruction) bool {
	switch in := in.(type) {
	case *ssa.BinOp:
		switch in.Op {
		case token.QUO, token.REM:
			return false
		case token.SHL, token.SHR:
			if b, ok := in.Y.Type().Underlying().(*types.Basic); ok && b.Info()&types.IsUnsigned != 0 {
				return true
			}
			_, isConst := in.Y.(*ssa.Const)
			return isConst
		case token.EQL, token.NEQ:
			// comparing interfaces may panic; restrict to basic/struct/array/pointer
			switch in.X.Type().Underlying().(type) {
			case *types.Interface:
				return false
			}
			return true
		}
		return true
	case *ssa.UnOp:
		return in.Op != token.ARROW
	case *ssa.Convert:
		_, ok := in.Type().Underlying().(*types.Basic)
		_, ok2 := in.X.Type().Underlying().(*types.Basic)
		return ok && ok2
	case *ssa.ChangeType, *ssa.Field, *ssa.FieldAddr, *ssa.Extract, *ssa.DebugRef, *ssa.IndexAddr, *ssa.Index:
		return true
	case *ssa.Call:
		if in.Call.Method != nil {
			return false
		}
		if f, ok := in.Call.Value.(*ssa.Function); ok {
			return pureIntrinsics[f.String()]
		}
		return false
	}
	return false
}

var pureIntrinsics = map[string]bool{
	"math.Abs": true, "math.Min": true, "math.Max": true,
}

// evalArm evaluates a pure arm speculatively; false if anything would trap.
func (m *Machine) evalArm(fr *frame, arm *ssa.BasicBlock) (ok bool) {
	defer func() {
		if r := recover(); r != nil {
			if _, isEF := r.(engineFault); isEF {
				panic(r)
			}
			ok = false
		}
	}()
	for _, in := range arm.Instrs[:len(arm.Instrs)-1] {
		switch in := in.(type) {
		case *ssa.DebugRef:
		case *ssa.BinOp:
			x, y := fr.get(in.X), fr.get(in.Y)
			if in.Op == token.SHL || in.Op == token.SHR {
				if _, s := y.(symInt); s {
					return false
				}
			}
			fr.env[in] = m.binop(in.Op, in.X.Type(), x, y)
		case *ssa.UnOp:
			x := fr.get(in.X)
			if in.Op == token.MUL {
				if p, _ := x.(*value); p == nil {
					return false
				}
			}
			fr.env[in] = m.unop(fr, in, x)
		case *ssa.Convert:
			fr.env[in] = m.conv(in.Type(), in.X.Type(), fr.get(in.X))
		case *ssa.ChangeType:
			fr.env[in] = fr.get(in.X)
		case *ssa.Field:
			fr.env[in] = fr.get(in.X).(structure)[in.Field]
		case *ssa.FieldAddr:
			p := fr.get(in.X).(*value)
			if p == nil {
				return false
			}
			fr.env[in] = &(*p).(structure)[in.Field]
		case *ssa.Extract:
			fr.env[in] = fr.get(in.Tuple).(tuple)[in.Index]
		case *ssa.IndexAddr:
			idx := fr.get(in.Index)
			if isSym(idx) {
				return false
			}
			var elems []value
			switch x := fr.get(in.X).(type) {
			case []value:
				elems = x
			case *value:
				if x == nil {
					return false
				}
				elems = (*x).(array)
			}
			i := asInt64(idx)
			if i < 0 || i >= int64(len(elems)) {
				return false
			}
			fr.env[in] = &elems[i]
		case *ssa.Index:
			idx := fr.get(in.Index)
			if isSym(idx) {
				return false
			}
			i := asInt64(idx)
			switch x := fr.get(in.X).(type) {
			case array:
				if i < 0 || i >= int64(len(x)) {
					return false
				}
				fr.env[in] = x[i]
			default:
				return false
			}
		case *ssa.Call:
			fn, args := m.prepareCall(fr, &in.Call)
			fr.env[in] = m.call(fr, in.Pos(), fn, args)
			m.curFrame = fr
		default:
			return false
		}
	}
	return true
}

func (m *Machine) tryIfConvert(fr *frame, instr *ssa.If, c *Term) bool {
	if m.h.noIfConv {
		return false
	}
	ai := m.eng.ifInfo(instr)
	if !ai.ok {
		return false
	}
	cur := fr.block
	nd := len(m.decisions)
	npc := len(m.pc)
	if ai.tArm != nil && !m.evalArm(fr, ai.tArm) {
		return false
	}
	if ai.fArm != nil && !m.evalArm(fr, ai.fArm) {
		return false
	}
	if len(m.decisions) != nd || len(m.pc) != npc {
		// an arm forked or added constraints: not a pure merge
		panic(engineFault{"if-conversion arm changed the path state in " + fr.fn.String()})
	}
	predT, predF := cur, cur
	if ai.tArm != nil {
		predT = ai.tArm
	}
	if ai.fArm != nil {
		predF = ai.fArm
	}
	iT, iF := -1, -1
	for i, p := range ai.join.Preds {
		if p == predT && iT < 0 {
			iT = i
		}
		if p == predF {
			iF = i
		}
	}
	if predT == predF {
		// both edges from cur directly (degenerate)
		return false
	}
	if iT < 0 || iF < 0 {
		return false
	}
	var phis []*ssa.Phi
	for _, in := range ai.join.Instrs {
		if phi, ok := in.(*ssa.Phi); ok {
			phis = append(phis, phi)
		} else {
			break
		}
	}
	vals := make([]value, len(phis))
	m.noFloatLift = true
	defer func() { m.noFloatLift = false }()
	for i, phi := range phis {
		a, b := fr.get(phi.Edges[iT]), fr.get(phi.Edges[iF])
		r, ok := m.mergeValues(c, a, b)
		if !ok {
			return false
		}
		vals[i] = r
	}
	for i, phi := range phis {
		fr.env[phi] = vals[i]
	}
	fr.prevBlock, fr.block = predT, ai.join
	fr.skipPhis = true
	return true
}

// ---------------------------------------------------------------------
// symbolic element references: &arr[i] with symbolic i

type symRef struct {
	elems []value
	idx   symInt
	path  []int
}

func (sr *symRef) extend(i int) *symRef {
	p := make([]int, len(sr.path)+1)
	copy(p, sr.path)
	p[len(sr.path)] = i
	return &symRef{elems: sr.elems, idx: sr.idx, path: p}
}

func subValue(v value, path []int) *value {
	cur := &v
	for _, i := range path {
		switch c := (*cur).(type) {
		case structure:
			cur = &c[i]
		case array:
			if i < 0 || i >= len(c) {
				panic(targetPanic{v: fmt.Sprintf("runtime error: index out of range [%d] with length %d", i, len(c))})
			}
			cur = &c[i]
		default:
			panic(engineFault{fmt.Sprintf("subValue through %T", c)})
		}
	}
	return cur
}

func (m *Machine) checkIndexRange(si symInt, n int) {
	oob := m.oobTerm(si, n)
	if m.branch(oob) {
		panic(targetPanic{v: fmt.Sprintf("runtime error: index out of range [symbolic] with length %d", n)})
	}
}

func (m *Machine) symRefLoad(sr *symRef) value {
	n := len(sr.elems)
	res, ok := m.selectTree(sr.idx, n, func(i int) value { return *subValue(sr.elems[i], sr.path) })
	if !ok {
		k := int(m.concretize(sr.idx, "index"))
		return copyVal(*subValue(sr.elems[k], sr.path))
	}
	return copyVal(res)
}

func (m *Machine) symRefStore(sr *symRef, v value) {
	bits, _ := kindBits(sr.idx.kind)
	type upd struct {
		p *value
		v value
	}
	var upds []upd
	for i := range sr.elems {
		var p *value
		if len(sr.path) == 0 {
			p = &sr.elems[i]
		} else {
			p = subValue(sr.elems[i], sr.path)
		}
		c := m.tt.Eq(sr.idx.t, m.tt.BVLit(uint64(i), bits))
		r, ok := m.mergeValues(c, v, *p)
		if !ok {
			k := int(m.concretize(sr.idx, "index"))
			if len(sr.path) == 0 {
				store(nil, &sr.elems[k], v)
			} else {
				store(nil, subValue(sr.elems[k], sr.path), v)
			}
			return
		}
		upds = append(upds, upd{p, r})
	}
	for _, u := range upds {
		store(nil, u.p, u.v)
	}
}

// oobTerm: idx < 0 || idx >= n for an index of si's type.
func (m *Machine) oobTerm(si symInt, n int) *Term {
	bits, signed := kindBits(si.kind)
	if signed {
		neg := m.tt.App("bvslt", sortBool, si.t, m.tt.BVLit(0, bits))
		if bits < 64 && uint64(n) >= uint64(1)<<uint(bits-1) {
			return neg
		}
		return m.tt.Or(neg, m.tt.App("bvsge", sortBool, si.t, m.tt.BVLit(uint64(n), bits)))
	}
	if bits < 64 && uint64(n) >= uint64(1)<<uint(bits) {
		return m.tt.False()
	}
	return m.tt.App("bvuge", sortBool, si.t, m.tt.BVLit(uint64(n), bits))
}

// symbolicMakeLen handles make([]T, n) with a symbolic n (a count taken from
// untrusted input): a negative n is a panic path; an n above the harness's
// allocation limit (param allocLimit, default 65536 elements) is recorded as
// an "allocation out of proportion to the input" violation candidate; the
// path then continues with n <= maxSymLen (param, default 3), one path per
// value.
func (m *Machine) symbolicMakeLen(si symInt) value {
	bits, signed := kindBits(si.kind)
	if signed {
		if m.branch(m.tt.App("bvslt", sortBool, si.t, m.tt.BVLit(0, bits))) {
			panic(targetPanic{v: "runtime error: makeslice: len out of range"})
		}
	}
	limit := m.h.Params["allocLimit"]
	if limit == 0 {
		limit = 1 << 16
	}
	maxSym := m.h.Params["maxSymLen"]
	if maxSym == 0 {
		maxSym = 3
	}
	if len(m.decisions) >= len(m.prefix) {
		big := m.tt.App("bvugt", sortBool, si.t, m.tt.BVLit(uint64(limit), bits))
		m.solver.Push()
		m.solver.Assert(big)
		moderate := m.tt.App("bvule", sortBool, si.t, m.tt.BVLit(uint64(limit)*16, bits))
		r := m.solver.CheckWith(moderate)
		if r == Sat {
			m.solver.Assert(moderate)
		}
		if r = m.solver.Check(); r == Sat {
			m.recordViolation("allocations stay in proportion to the input", "assert",
				fmt.Sprintf("make() with a length taken from the input can exceed %d elements", limit), true)
		}
		m.solver.Pop()
	}
	small := m.tt.App("bvule", sortBool, si.t, m.tt.BVLit(uint64(maxSym), bits))
	m.assume(symBool{small})
	return intOfKind(si.kind, uint64(m.concretize(si, "make length")))
}

// initAllowed lists the packages outside the module whose initialisers are
// run (plain variable initialisation the code under test depends on).
var initAllowed = map[string]bool{"image/color": true, "image": true}
