package main

// Engine: loads /repo (+ overlay harnesses) into SSA, owns globals, runs the
// package initialisers once, and explores harness paths on a worker pool.

import (
	"encoding/json"
	"fmt"
	"go/types"
	"os"
	"path/filepath"
	"sort"
	"strings"
	"sync"
	"time"

	"golang.org/x/tools/go/packages"
	"golang.org/x/tools/go/ssa"
	"golang.org/x/tools/go/ssa/ssautil"
)

const modulePath = "github.com/unixpickle/model3d"

type Engine struct {
	repo     string
	verif    string
	prog     *ssa.Program
	pkgs     map[string]*ssa.Package // by import path
	mu       sync.Mutex
	globals  map[*ssa.Global]*value
	ifCache  map[*ssa.If]*armInfo
	errorStringPtr types.Type
	overlay  map[string][]byte
	overlayFiles map[string]string // virtual -> real
	loadTime time.Duration
	initDone map[*ssa.Package]bool
}

func (e *Engine) global(g *ssa.Global) *value {
	e.mu.Lock()
	defer e.mu.Unlock()
	if r, ok := e.globals[g]; ok {
		return r
	}
	cell := zero(mustDeref(g.Type()))
	e.globals[g] = &cell
	return &cell
}

func buildOverlay(repo, verif string) (map[string][]byte, map[string]string, error) {
	ov := map[string][]byte{}
	files := map[string]string{}
	root := filepath.Join(verif, "harness")
	err := filepath.Walk(root, func(p string, info os.FileInfo, err error) error {
		if err != nil {
			return err
		}
		if info.IsDir() || !strings.HasSuffix(p, ".go") {
			return nil
		}
		rel, _ := filepath.Rel(root, p)
		var virt string
		if strings.HasPrefix(rel, "vp"+string(filepath.Separator)) {
			virt = filepath.Join(repo, "internal", rel)
		} else {
			virt = filepath.Join(repo, rel)
		}
		data, err := os.ReadFile(p)
		if err != nil {
			return err
		}
		ov[virt] = data
		files[virt] = p
		return nil
	})
	if err != nil {
		return ov, files, err
	}
	// source cuts: textual substitutions applied to the current /repo source
	// (regenerated on every run; a site that is no longer found is an error,
	// never silently skipped)
	cuts, err := loadCuts(verif)
	if err != nil {
		return ov, files, err
	}
	for _, c := range cuts {
		virt := filepath.Join(repo, c.File)
		data, ok := ov[virt]
		if !ok {
			if data, err = os.ReadFile(virt); err != nil {
				return ov, files, fmt.Errorf("cut %s: %v", c.File, err)
			}
		}
		if n := strings.Count(string(data), c.Old); n != 1 {
			return ov, files, fmt.Errorf("cut site %q found %d times in %s (expected once)", c.Old, n, c.File)
		}
		ov[virt] = []byte(strings.Replace(string(data), c.Old, c.New, 1))
		files[virt] = "cut:" + c.File
	}
	return ov, files, nil
}

// SourceCut is a recorded, deliberate substitution in the code under test.
type SourceCut struct {
	File string `json:"file"`
	Old  string `json:"old"`
	New  string `json:"new"`
	Why  string `json:"why"`
}

func loadCuts(verif string) ([]SourceCut, error) {
	data, err := os.ReadFile(filepath.Join(verif, "cuts.json"))
	if os.IsNotExist(err) {
		return nil, nil
	}
	if err != nil {
		return nil, err
	}
	var cuts []SourceCut
	if err := json.Unmarshal(data, &cuts); err != nil {
		return nil, fmt.Errorf("cuts.json: %v", err)
	}
	return cuts, nil
}

func NewEngine(repo, verif string, pkgDirs []string) (*Engine, error) {
	t0 := time.Now()
	e := &Engine{repo: repo, verif: verif, globals: map[*ssa.Global]*value{}, ifCache: map[*ssa.If]*armInfo{},
		pkgs: map[string]*ssa.Package{}, initDone: map[*ssa.Package]bool{}}
	ov, files, err := buildOverlay(repo, verif)
	if err != nil {
		return nil, err
	}
	e.overlay, e.overlayFiles = ov, files
	cfg := &packages.Config{
		Mode: packages.NeedName | packages.NeedFiles | packages.NeedCompiledGoFiles | packages.NeedImports |
			packages.NeedDeps | packages.NeedTypes | packages.NeedSyntax | packages.NeedTypesInfo | packages.NeedTypesSizes | packages.NeedModule,
		Dir:        repo,
		BuildFlags: []string{"-tags=verif"},
		Overlay:    ov,
		Env:        append(os.Environ(), "GOFLAGS=-mod=mod", "GOPROXY=off", "GOSUMDB=off", "GOTOOLCHAIN=local"),
	}
	var patterns []string
	for _, d := range pkgDirs {
		patterns = append(patterns, "./"+d)
	}
	initial, err := packages.Load(cfg, patterns...)
	if err != nil {
		return nil, err
	}
	nerr := 0
	packages.Visit(initial, nil, func(p *packages.Package) {
		for _, er := range p.Errors {
			fmt.Fprintln(os.Stderr, "load error:", er)
			nerr++
		}
	})
	if nerr > 0 {
		return nil, fmt.Errorf("%d package load errors (does /repo build with -tags verif and the overlay?)", nerr)
	}
	prog, _ := ssautil.AllPackages(initial, ssa.InstantiateGenerics|ssa.SanityCheckFunctions)
	prog.Build()
	e.prog = prog
	for _, p := range prog.AllPackages() {
		e.pkgs[p.Pkg.Path()] = p
	}
	if ep := e.pkgs["errors"]; ep != nil {
		if es := ep.Type("errorString"); es != nil {
			e.errorStringPtr = types.NewPointer(es.Type())
		}
	}
	if e.errorStringPtr == nil {
		return nil, fmt.Errorf("errors.errorString not found")
	}
	e.loadTime = time.Since(t0)
	return e, nil
}

// runInits runs the initialisers of the module's packages (dependencies
// first); calls into initialisers outside the module are skipped and a few
// standard-library globals are provided directly.
func (e *Engine) runInits() error {
	setErr := func(pkg, name, msg string) {
		if p := e.pkgs[pkg]; p != nil {
			if g, ok := p.Members[name].(*ssa.Global); ok {
				var cell value = structure{msg}
				*e.global(g) = iface{t: e.errorStringPtr, v: &cell}
			}
		}
	}
	setErr("io", "EOF", "EOF")
	setErr("io", "ErrUnexpectedEOF", "unexpected EOF")
	setErr("io", "ErrShortBuffer", "short buffer")
	setErr("io", "ErrShortWrite", "short write")
	setErr("io", "ErrNoProgress", "multiple Read calls return no data or error")
	setErr("bufio", "ErrBufferFull", "bufio: buffer full")
	setErr("bufio", "ErrNegativeCount", "bufio: negative count")
	setErr("strconv", "ErrSyntax", "invalid syntax")
	setErr("strconv", "ErrRange", "value out of range")

	var paths []string
	for p := range e.pkgs {
		if strings.HasPrefix(p, modulePath) {
			paths = append(paths, p)
		}
	}
	sort.Strings(paths)
	h := &HarnessRun{Name: "<init>", Params: map[string]int{}}
	h.setDefaults()
	h.stepLimit = 2_000_000_000
	m := &Machine{eng: e, tt: NewTermTable(), h: h, stepLimit: h.stepLimit}
	m.resetPath(nil)
	for _, p := range paths {
		pkg := e.pkgs[p]
		initFn := pkg.Func("init")
		if initFn == nil {
			continue
		}
		out := m.runMain(func() { m.callSSA(nil, 0, initFn, nil, nil) })
		if out != nil {
			return fmt.Errorf("init of %s failed: %v", p, describeOutcome(out))
		}
	}
	return nil
}

func describeOutcome(out interface{}) string {
	switch o := out.(type) {
	case pathEnd:
		return fmt.Sprintf("%s: %s", o.status, o.msg)
	case targetPanic:
		return "panic: " + toString(o.v)
	case engineFault:
		return o.Error()
	}
	return fmt.Sprint(out)
}

func inModule(p *ssa.Package) bool {
	return p != nil && strings.HasPrefix(p.Pkg.Path(), modulePath)
}

// ---------------------------------------------------------------------
// harness runs

type HarnessRun struct {
	Name     string
	Pkg      string // import path
	Instance string
	Mode     FloatMode
	Params   map[string]int
	Tier     string

	maxDecisions  int
	maxAlloc      int64
	maxConcretize int
	maxDepth      int
	stepLimit     int64
	maxPaths      int
	maxWallS      int
	noIfConv      bool
	noSymRef      bool
	assumeProven  bool
	pool          *asyncPool
	syncAsserts   bool
	timeoutMS     int
	solverBin     string
	workers       int
	panicIsViolation bool
	terminationChecked bool
	ncpu          value

	mu    sync.Mutex
	stubs map[string]bool

	// results
	Result HarnessResult
}

func (h *HarnessRun) setDefaults() {
	if h.maxDecisions == 0 {
		h.maxDecisions = 5000
	}
	if h.maxAlloc == 0 {
		h.maxAlloc = 1 << 20
	}
	if h.maxConcretize == 0 {
		h.maxConcretize = 64
	}
	if h.maxDepth == 0 {
		h.maxDepth = 400
	}
	if h.stepLimit == 0 {
		h.stepLimit = 20_000_000
	}
	if h.maxPaths == 0 {
		h.maxPaths = 200000
	}
	if h.maxWallS == 0 {
		h.maxWallS = 900
	}
	if h.timeoutMS == 0 {
		h.timeoutMS = 20000
	}
	if h.workers == 0 {
		h.workers = 8
	}
	if h.stubs == nil {
		h.stubs = map[string]bool{}
	}
}

func (h *HarnessRun) noteStub(name string) {
	h.mu.Lock()
	h.stubs[name] = true
	h.mu.Unlock()
}

type HarnessResult struct {
	Name       string         `json:"name"`
	Instance   string         `json:"instance,omitempty"`
	Pkg        string         `json:"package"`
	FloatMode  string         `json:"float_mode"`
	Params     map[string]int `json:"bounds"`
	Paths      int            `json:"paths"`
	ByStatus   map[string]int `json:"paths_by_status"`
	Instrs     int64          `json:"ssa_instructions"`
	Queries    int            `json:"queries"`
	Unsat      int            `json:"unsat"`
	Sat        int            `json:"sat"`
	UnknownQ   int            `json:"unknown"`
	SolverS    float64        `json:"solver_s"`
	WallS      float64        `json:"wall_s"`
	Asserts    int            `json:"assertions_discharged"`
	Guards     int            `json:"implicit_guards"`
	Reached    []string       `json:"reached"`
	ReachWitness []InputRec   `json:"reach_witness,omitempty"`
	Stubs      []string       `json:"stubs"`
	Functions  []string       `json:"functions_encoded"`
	Findings   []Finding      `json:"-"`
	Problems   []string       `json:"problems,omitempty"`
	TerminationChecked bool   `json:"termination_checked,omitempty"`
}

type workItem struct{ prefix []int }

// Explore runs all paths of the harness.
func (e *Engine) Explore(h *HarnessRun) {
	h.setDefaults()
	t0 := time.Now()
	pkg := e.pkgs[h.Pkg]
	res := &h.Result
	res.Name, res.Instance, res.Pkg, res.Params = h.Name, h.Instance, h.Pkg, h.Params
	res.FloatMode = map[FloatMode]string{ModeFP: "fp(bit-precise IEEE)", ModeReal: "real"}[h.Mode]
	res.ByStatus = map[string]int{}
	if pkg == nil {
		res.Problems = append(res.Problems, "package not loaded: "+h.Pkg)
		return
	}
	fn := pkg.Func(h.Name)
	if fn == nil {
		res.Problems = append(res.Problems, "harness function not found: "+h.Name)
		return
	}

	if !h.syncAsserts {
		h.pool = newAsyncPool(8, h.solverName(), h.timeoutMS, h.Mode == ModeReal)
		h.pool.nlsatFirst = h.Params["nlsatFirst"] == 1
	}
	var mu sync.Mutex
	cond := sync.NewCond(&mu)
	work := []workItem{{nil}}
	active := 0
	stop := false
	reached := map[string]bool{}
	funcs := map[string]bool{}
	var witness []InputRec

	worker := func() {
		solver := NewSolver(h.solverName(), h.timeoutMS)
		solver.nra = h.Mode == ModeReal
		solver.nlsatFirst = h.Params["nlsatFirst"] == 1
		defer solver.Close()
		m := &Machine{eng: e, tt: NewTermTable(), solver: solver, mode: h.Mode, h: h}
		m.funcsSeen = map[*ssa.Function]bool{}
		for {
			mu.Lock()
			for len(work) == 0 && active > 0 && !stop {
				cond.Wait()
			}
			if stop || (len(work) == 0 && active == 0) {
				mu.Unlock()
				cond.Broadcast()
				break
			}
			item := work[len(work)-1]
			work = work[:len(work)-1]
			active++
			mu.Unlock()

			status, msg, wit := m.runPath(fn, item.prefix)

			mu.Lock()
			active--
			res.Paths++
			res.ByStatus[status.String()]++
			for _, alt := range m.pending {
				work = append(work, workItem{alt})
			}
			for k := range m.reached {
				if !reached[k] {
					reached[k] = true
					if k == "end" && wit != nil {
						witness = wit
					}
				}
			}
			res.Asserts += m.asserts
			m.asserts = 0
			res.Guards += m.guards
			m.guards = 0
			res.Findings = append(res.Findings, m.findings...)
			switch status {
			case StUnwind, StUnsupported, StUnknown, StFault, StDeadlock:
				if len(res.Problems) < 20 {
					res.Problems = append(res.Problems, fmt.Sprintf("%s: %s [decisions %v]", status, msg, truncInts(m.decisions, 40)))
				}
			}
			if status == StFault {
				stop = true
			}
			if h.terminationChecked && len(res.Findings) > 0 {
				// a non-terminating loop with a choice per iteration has
				// unboundedly many paths; one counterexample is enough
				for _, f := range res.Findings {
					if f.Kind == "nontermination" {
						stop = true
					}
				}
			}
			if !stop && time.Since(t0) > time.Duration(h.maxWallS)*time.Second {
				res.Problems = append(res.Problems, fmt.Sprintf("wall-clock budget %ds exhausted after %d paths (bound too large for this harness)", h.maxWallS, res.Paths))
				stop = true
			}
			if res.Paths >= h.maxPaths {
				res.Problems = append(res.Problems, fmt.Sprintf("path budget %d exhausted", h.maxPaths))
				stop = true
			}
			mu.Unlock()
			cond.Broadcast()
			if solver.sinceRestart > 3000 {
				solver.Restart()
				m.tt = NewTermTable()
			}
		}
		mu.Lock()
		res.Instrs += m.instrs
		res.Queries += solver.Queries
		res.Unsat += solver.NUnsat
		res.Sat += solver.NSat
		res.UnknownQ += solver.NUnknown
		res.SolverS += solver.Time.Seconds()
		for f := range m.funcsSeen {
			if inModule(f.Pkg) || (f.Pkg == nil && f.Origin() != nil && inModule(f.Origin().Pkg)) {
				name := f.String()
				if !strings.Contains(name, "VP_") && !strings.Contains(name, "/internal/vp") && !strings.Contains(name, "vp") {
					funcs[name] = true
				} else if !strings.Contains(name, ".VP_") && !strings.Contains(name, "internal/vp.") && !strings.Contains(name, ".vp") {
					funcs[name] = true
				}
			}
		}
		mu.Unlock()
	}
	var wg sync.WaitGroup
	for i := 0; i < h.workers; i++ {
		wg.Add(1)
		go func() { defer wg.Done(); worker() }()
	}
	wg.Wait()
	if h.pool != nil {
		h.pool.close()
		res.Queries += h.pool.queries
		res.Unsat += h.pool.nunsat
		res.Sat += h.pool.nsat
		res.UnknownQ += h.pool.nunknown
		res.SolverS += h.pool.time.Seconds()
		h.pool = nil
	}
	for k := range reached {
		res.Reached = append(res.Reached, k)
	}
	sort.Strings(res.Reached)
	res.ReachWitness = witness
	for s := range h.stubs {
		res.Stubs = append(res.Stubs, s)
	}
	sort.Strings(res.Stubs)
	for f := range funcs {
		res.Functions = append(res.Functions, f)
	}
	sort.Strings(res.Functions)
	res.TerminationChecked = h.terminationChecked
	res.WallS = time.Since(t0).Seconds()
}

func truncInts(a []int, n int) []int {
	if len(a) > n {
		return a[:n]
	}
	return a
}

// runPath executes one path.
func (m *Machine) runPath(fn *ssa.Function, prefix []int) (PathStatus, string, []InputRec) {
	m.resetPath(prefix)
	m.stepLimit = m.h.stepLimit
	m.wg, m.onceDone, m.atomicVals = nil, nil, nil
	m.solver.PopAll()
	m.solver.Push()
	var wit []InputRec
	out := m.runMain(func() {
		m.callSSA(nil, 0, fn, nil, nil)
		if m.reached["end"] && len(prefix) == 0 || m.reached["end"] {
			// reachability witness: model of the final path condition
			if m.solver.Check() == Sat {
				wit = m.modelInputs()
			} else {
				delete(m.reached, "end")
			}
		}
	})
	m.instrs += m.steps
	status, msg := StOK, ""
	nviol, nunk := m.collectAsync()
	if m.exploreSched && out == nil {
		for _, r := range m.analyseRaces() {
			m.curFrame = nil
			m.recordViolation("no data race", "race", r.String(), false)
			nviol++
		}
	}
	switch o := out.(type) {
	case nil:
	case pathEnd:
		status, msg = o.status, o.msg
		if status == StUnwind && m.h.terminationChecked {
			// the harness declared termination as part of the property
			if m.solver.Check() != Unsat {
				m.recordViolation("terminates", "nontermination", msg, true)
				status = StViolation
			}
		}
	case targetPanic:
		msg = "panic: " + toString(o.v)
		status = StPanic
		r := m.solver.Check()
		if r == Unsat {
			status = StInfeasible
		} else {
			m.recordViolation("no-panic", "panic", msg, r == Sat)
		}
	case engineFault:
		status, msg = StFault, o.msg
	default:
		status, msg = StFault, fmt.Sprint(o)
	}
	if status == StOK || status == StAssumeFalse || status == StFPExc || status == StInfeasible {
		if nviol > 0 {
			status, msg = StViolation, "assertion(s) can be false"
		} else if nunk > 0 {
			status, msg = StUnknown, "solver unknown on assertion(s): "+strings.Join(m.unknownLabels, "; ")
		}
	}
	m.unknownLabels = nil
	m.solver.PopAll()
	return status, msg, wit
}

func (h *HarnessRun) solverName() string {
	if v := os.Getenv("SYMGO_SOLVER"); v != "" {
		return v
	}
	if h.solverBin != "" {
		return h.solverBin
	}
	return "z3-new"
}
