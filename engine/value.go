package main

// Boxed values (after x/tools/go/ssa/interp) extended with symbolic scalars.
//
// - bool, numbers (all built-in int/float/complex types), string
// - symBool, symInt, symFloat --- symbolic scalars (SMT terms)
// - *smap --- maps (insertion ordered, symbolic-aware key comparison)
// - *schan --- channels (cooperative scheduler)
// - []value --- slices
// - iface --- interfaces
// - structure, array
// - *value --- pointers
// - *ssa.Function, *ssa.Builtin, *closure --- functions
// - tuple

import (
	"bytes"
	"fmt"
	"go/types"
	"io"
	"strings"
	"unsafe"

	"golang.org/x/tools/go/ssa"
)

type value interface{}

type tuple []value

type array []value

type iface struct {
	t types.Type // never an "untyped" type
	v value
}

type structure []value

type iter interface {
	next(m *Machine) tuple
}

type closure struct {
	Fn  *ssa.Function
	Env []value
}

type bad struct{}

type symBool struct{ t *Term }

type symInt struct {
	t    *Term
	kind types.BasicKind
}

type symFloat struct {
	t    *Term
	bits int // 64 or 32 (static Go type)
}

func isSym(v value) bool {
	switch v.(type) {
	case symBool, symInt, symFloat:
		return true
	}
	return false
}

// hasSym reports whether v contains a symbolic leaf (not following pointers).
func hasSym(v value) bool {
	switch v := v.(type) {
	case symBool, symInt, symFloat:
		return true
	case structure:
		for _, e := range v {
			if hasSym(e) {
				return true
			}
		}
	case array:
		for _, e := range v {
			if hasSym(e) {
				return true
			}
		}
	case iface:
		return hasSym(v.v)
	case tuple:
		for _, e := range v {
			if hasSym(e) {
				return true
			}
		}
	}
	return false
}

func kindBits(k types.BasicKind) (bits int, signed bool) {
	switch k {
	case types.Int, types.Int64:
		return 64, true
	case types.Int8:
		return 8, true
	case types.Int16:
		return 16, true
	case types.Int32, types.UntypedRune:
		return 32, true
	case types.Uint, types.Uint64, types.Uintptr:
		return 64, false
	case types.Uint8:
		return 8, false
	case types.Uint16:
		return 16, false
	case types.Uint32:
		return 32, false
	case types.UntypedInt:
		return 64, true
	}
	panic(engineFault{fmt.Sprintf("kindBits: not an integer kind %v", k)})
}

func kindOfValue(x value) types.BasicKind {
	switch x := x.(type) {
	case int:
		return types.Int
	case int8:
		return types.Int8
	case int16:
		return types.Int16
	case int32:
		return types.Int32
	case int64:
		return types.Int64
	case uint:
		return types.Uint
	case uint8:
		return types.Uint8
	case uint16:
		return types.Uint16
	case uint32:
		return types.Uint32
	case uint64:
		return types.Uint64
	case uintptr:
		return types.Uintptr
	case symInt:
		return x.kind
	}
	return types.Invalid
}

// intOfKind boxes v as the Go integer type for kind k.
func intOfKind(k types.BasicKind, v uint64) value {
	switch k {
	case types.Int, types.UntypedInt:
		return int(v)
	case types.Int8:
		return int8(v)
	case types.Int16:
		return int16(v)
	case types.Int32, types.UntypedRune:
		return int32(v)
	case types.Int64:
		return int64(v)
	case types.Uint:
		return uint(v)
	case types.Uint8:
		return uint8(v)
	case types.Uint16:
		return uint16(v)
	case types.Uint32:
		return uint32(v)
	case types.Uint64:
		return v
	case types.Uintptr:
		return uintptr(v)
	}
	panic(engineFault{fmt.Sprintf("intOfKind: %v", k)})
}

// ---------------------------------------------------------------------
// equality

func sameType(x, y types.Type) bool {
	if x == nil {
		return y == nil
	}
	return y != nil && types.Identical(x, y)
}

// equalsV returns bool or symBool.
func (m *Machine) equalsV(t types.Type, x, y value) value {
	if isSym(x) || isSym(y) {
		return m.symCompareEq(x, y)
	}
	switch x := x.(type) {
	case bool:
		return x == y.(bool)
	case int:
		return x == y.(int)
	case int8:
		return x == y.(int8)
	case int16:
		return x == y.(int16)
	case int32:
		return x == y.(int32)
	case int64:
		return x == y.(int64)
	case uint:
		return x == y.(uint)
	case uint8:
		return x == y.(uint8)
	case uint16:
		return x == y.(uint16)
	case uint32:
		return x == y.(uint32)
	case uint64:
		return x == y.(uint64)
	case uintptr:
		return x == y.(uintptr)
	case float32:
		return x == y.(float32)
	case float64:
		return x == y.(float64)
	case complex64:
		return x == y.(complex64)
	case complex128:
		return x == y.(complex128)
	case string:
		return x == y.(string)
	case *value:
		return x == y.(*value)
	case *schan:
		return x == y.(*schan)
	case unsafe.Pointer:
		return x == y.(unsafe.Pointer)
	case structure:
		ys := y.(structure)
		var tStruct *types.Struct
		if t != nil {
			tStruct, _ = t.Underlying().(*types.Struct)
		}
		var acc value = true
		for i := range x {
			var ft types.Type
			if tStruct != nil {
				f := tStruct.Field(i)
				if f.Name() == "_" {
					continue
				}
				ft = f.Type()
			}
			acc = m.andV(acc, m.equalsV(ft, x[i], ys[i]))
			if b, ok := acc.(bool); ok && !b {
				return false
			}
		}
		return acc
	case array:
		ya := y.(array)
		var et types.Type
		if t != nil {
			if at, ok := t.Underlying().(*types.Array); ok {
				et = at.Elem()
			}
		}
		var acc value = true
		for i := range x {
			acc = m.andV(acc, m.equalsV(et, x[i], ya[i]))
			if b, ok := acc.(bool); ok && !b {
				return false
			}
		}
		return acc
	case iface:
		yi := y.(iface)
		if !sameType(x.t, yi.t) {
			return false
		}
		if x.t == nil {
			return true
		}
		return m.equalsV(x.t, x.v, yi.v)
	case *ssa.Function, *closure, *ssa.Builtin:
		return x == y
	}
	panic(targetPanic{v: fmt.Sprintf("runtime error: comparing uncomparable type %v (%T)", t, x)})
}

func (m *Machine) andV(a, b value) value {
	if ab, ok := a.(bool); ok {
		if !ab {
			return false
		}
		return b
	}
	if bb, ok := b.(bool); ok {
		if !bb {
			return false
		}
		return a
	}
	return symBool{m.tt.And(a.(symBool).t, b.(symBool).t)}
}

func (m *Machine) orV(a, b value) value {
	if ab, ok := a.(bool); ok {
		if ab {
			return true
		}
		return b
	}
	if bb, ok := b.(bool); ok {
		if bb {
			return true
		}
		return a
	}
	return symBool{m.tt.Or(a.(symBool).t, b.(symBool).t)}
}

func (m *Machine) notV(a value) value {
	if ab, ok := a.(bool); ok {
		return !ab
	}
	return symBool{m.tt.Not(a.(symBool).t)}
}

// truth forces a bool-or-symBool to a concrete bool, forking if needed.
func (m *Machine) truth(v value) bool {
	switch v := v.(type) {
	case bool:
		return v
	case symBool:
		return m.branch(v.t)
	}
	panic(engineFault{fmt.Sprintf("truth of %T", v)})
}

// ---------------------------------------------------------------------
// load/store (copy semantics for aggregates)

func load(T types.Type, addr *value) value {
	return copyVal(*addr)
}

func copyVal(v value) value {
	switch v := v.(type) {
	case structure:
		a := make(structure, len(v))
		for i := range a {
			a[i] = copyVal(v[i])
		}
		return a
	case array:
		a := make(array, len(v))
		for i := range a {
			a[i] = copyVal(v[i])
		}
		return a
	}
	return v
}

func store(T types.Type, addr *value, v value) {
	switch lhs := (*addr).(type) {
	case structure:
		rhs := v.(structure)
		for i := range lhs {
			store(nil, &lhs[i], rhs[i])
		}
	case array:
		rhs := v.(array)
		for i := range lhs {
			store(nil, &lhs[i], rhs[i])
		}
	default:
		*addr = v
	}
}

// ---------------------------------------------------------------------
// printing

func writeValue(buf *bytes.Buffer, v value) {
	switch v := v.(type) {
	case nil, bool, int, int8, int16, int32, int64, uint, uint8, uint16, uint32, uint64, uintptr, float32, float64, complex64, complex128, string:
		fmt.Fprintf(buf, "%v", v)
	case symBool:
		fmt.Fprintf(buf, "<sym %s>", v.t.Inline(3))
	case symInt:
		fmt.Fprintf(buf, "<sym %s>", v.t.Inline(3))
	case symFloat:
		fmt.Fprintf(buf, "<sym %s>", v.t.Inline(3))
	case *smap:
		buf.WriteString("map[")
		if v != nil {
			for i, k := range v.keys {
				if v.dead[i] {
					continue
				}
				buf.WriteString(" ")
				writeValue(buf, k)
				buf.WriteString(":")
				writeValue(buf, v.vals[i])
			}
		}
		buf.WriteString("]")
	case *schan:
		fmt.Fprintf(buf, "chan(%p)", v)
	case *value:
		if v == nil {
			buf.WriteString("<nil>")
		} else {
			fmt.Fprintf(buf, "%p", v)
		}
	case iface:
		if v.t == nil {
			buf.WriteString("<nil>")
			return
		}
		fmt.Fprintf(buf, "(%s, ", v.t)
		writeValue(buf, v.v)
		buf.WriteString(")")
	case structure:
		buf.WriteString("{")
		for i, e := range v {
			if i > 0 {
				buf.WriteString(" ")
			}
			writeValue(buf, e)
		}
		buf.WriteString("}")
	case array:
		buf.WriteString("[")
		for i, e := range v {
			if i > 0 {
				buf.WriteString(" ")
			}
			writeValue(buf, e)
		}
		buf.WriteString("]")
	case []value:
		buf.WriteString("[")
		for i, e := range v {
			if i > 0 {
				buf.WriteString(" ")
			}
			writeValue(buf, e)
		}
		buf.WriteString("]")
	case *ssa.Function, *ssa.Builtin, *closure:
		fmt.Fprintf(buf, "%p", v)
	case tuple:
		buf.WriteString("(")
		for i, e := range v {
			if i > 0 {
				buf.WriteString(", ")
			}
			writeValue(buf, e)
		}
		buf.WriteString(")")
	default:
		fmt.Fprintf(buf, "<%T>", v)
	}
}

func toString(v value) string {
	var b bytes.Buffer
	writeValue(&b, v)
	return b.String()
}

// ---------------------------------------------------------------------
// maps

type smap struct {
	keyType types.Type
	keys    []value
	vals    []value
	dead    []bool
	idx     map[string]int // concrete keys -> position
	nsym    int            // number of live entries with symbolic keys
	live    int
}

func newSmap(keyType types.Type) *smap {
	return &smap{keyType: keyType, idx: map[string]int{}}
}

// concreteKey returns a canonical string for a fully concrete key.
func concreteKey(v value) (string, bool) {
	var sb strings.Builder
	ok := writeKey(&sb, v)
	return sb.String(), ok
}

func writeKey(sb *strings.Builder, v value) bool {
	switch v := v.(type) {
	case symBool, symInt, symFloat:
		return false
	case float64:
		if v == 0 {
			v = 0 // -0 == +0
		}
		fmt.Fprintf(sb, "f%v;", v)
	case float32:
		if v == 0 {
			v = 0
		}
		fmt.Fprintf(sb, "g%v;", v)
	case structure:
		sb.WriteString("{")
		for _, e := range v {
			if !writeKey(sb, e) {
				return false
			}
		}
		sb.WriteString("}")
	case array:
		sb.WriteString("[")
		for _, e := range v {
			if !writeKey(sb, e) {
				return false
			}
		}
		sb.WriteString("]")
	case iface:
		if v.t == nil {
			sb.WriteString("nil;")
		} else {
			fmt.Fprintf(sb, "i(%s)", v.t.String())
			if !writeKey(sb, v.v) {
				return false
			}
		}
	case *value:
		fmt.Fprintf(sb, "p%p;", v)
	case *schan:
		fmt.Fprintf(sb, "c%p;", v)
	case string:
		fmt.Fprintf(sb, "s%q;", v)
	default:
		fmt.Fprintf(sb, "%T%v;", v, v)
	}
	return true
}

// find returns the position of key in the map or -1 (may fork).
func (sm *smap) find(m *Machine, key value) int {
	if sm == nil {
		return -1
	}
	ck, conc := concreteKey(key)
	if conc {
		if i, ok := sm.idx[ck]; ok {
			return i
		}
		if sm.nsym == 0 {
			return -1
		}
	}
	for i, k := range sm.keys {
		if sm.dead[i] {
			continue
		}
		if conc {
			if _, kc := concreteKey(k); kc {
				continue // distinct concrete keys
			}
		}
		if m.truth(m.equalsV(sm.keyType, k, key)) {
			return i
		}
	}
	return -1
}

func (sm *smap) lookup(m *Machine, key value) (value, bool) {
	i := sm.find(m, key)
	if i < 0 {
		return nil, false
	}
	return sm.vals[i], true
}

func (sm *smap) insert(m *Machine, key, v value) {
	if sm == nil {
		panic(targetPanic{v: "assignment to entry in nil map"})
	}
	if i := sm.find(m, key); i >= 0 {
		sm.vals[i] = v
		return
	}
	key = copyVal(key)
	sm.keys = append(sm.keys, key)
	sm.vals = append(sm.vals, v)
	sm.dead = append(sm.dead, false)
	sm.live++
	if ck, conc := concreteKey(key); conc {
		sm.idx[ck] = len(sm.keys) - 1
	} else {
		sm.nsym++
	}
}

func (sm *smap) delete(m *Machine, key value) {
	if sm == nil {
		return
	}
	i := sm.find(m, key)
	if i < 0 {
		return
	}
	sm.dead[i] = true
	sm.live--
	if ck, conc := concreteKey(sm.keys[i]); conc {
		delete(sm.idx, ck)
	} else {
		sm.nsym--
	}
}

func (sm *smap) len() int {
	if sm == nil {
		return 0
	}
	return sm.live
}

type mapIter struct {
	sm      *smap
	pos     int
	nondet  bool
	visited []bool
}

func (it *mapIter) next(m *Machine) tuple {
	sm := it.sm
	if sm == nil {
		return tuple{false, nil, nil}
	}
	if it.nondet {
		// choose any live, unvisited entry (fork per step)
		var cand []int
		for i := range sm.keys {
			if i < len(it.visited) && it.visited[i] {
				continue
			}
			if !sm.dead[i] {
				cand = append(cand, i)
			}
		}
		if len(cand) == 0 {
			return tuple{false, nil, nil}
		}
		c := 0
		if len(cand) > 1 {
			c = m.chooseFree(len(cand))
		}
		i := cand[c]
		for len(it.visited) <= i {
			it.visited = append(it.visited, false)
		}
		it.visited[i] = true
		return tuple{true, copyVal(sm.keys[i]), copyVal(sm.vals[i])}
	}
	for it.pos < len(sm.keys) {
		i := it.pos
		it.pos++
		if !sm.dead[i] {
			return tuple{true, copyVal(sm.keys[i]), copyVal(sm.vals[i])}
		}
	}
	return tuple{false, nil, nil}
}

type stringIter struct {
	*strings.Reader
	i int
}

func (it *stringIter) next(m *Machine) tuple {
	okv := make(tuple, 3)
	ch, n, err := it.ReadRune()
	ok := err != io.EOF
	okv[0] = ok
	if ok {
		okv[1] = it.i
		okv[2] = ch
	}
	it.i += n
	return okv
}
