package main

func registerIOIntrinsics(reg func(string, intrinsic), used func(string, intrinsic) intrinsic) {
}
