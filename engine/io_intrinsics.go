package main

// Environment models: math/rand (arbitrary values of the documented range),
// later: io / bufio / strconv / encoding/binary.

import (
	"go/token"
	"go/types"
)

func registerIOIntrinsics(reg func(string, intrinsic), used func(string, intrinsic) intrinsic) {
	// ---------------- essentials (reflection-based helpers) ----------------
	delIntr := func(ordered bool) intrinsic {
		return func(m *Machine, fr *frame, a []value) value {
			p, ok := a[0].(iface).v.(*value)
			if !ok {
				panic(targetPanic{v: "first argument must be slice pointer"})
			}
			sl, ok := (*p).([]value)
			if !ok {
				panic(targetPanic{v: "first argument must be slice pointer"})
			}
			idx := int(m.concInt(a[1], "essentials delete index"))
			if idx < 0 || idx >= len(sl) {
				panic(targetPanic{v: "index out of range"})
			}
			last := len(sl) - 1
			if ordered {
				copy(sl[idx:last], sl[idx+1:])
			} else {
				sl[idx] = sl[last]
			}
			// the real helper zeroes the vacated slot; its static type is not
			// needed here because the slot is no longer reachable through *p
			*p = sl[:last:cap(sl)]
			return nil
		}
	}
	reg("github.com/unixpickle/essentials.UnorderedDelete", used("essentials.UnorderedDelete/OrderedDelete (direct model of the reflection-based helper)", delIntr(false)))
	reg("github.com/unixpickle/essentials.OrderedDelete", used("essentials.UnorderedDelete/OrderedDelete (direct model of the reflection-based helper)", delIntr(true)))

	// ---------------- math/rand ----------------
	unitFloat := func(m *Machine, label string) value {
		if m.h.Params["concreteRand"] == 1 {
			// harness option: a fixed low-discrepancy sequence instead of
			// symbolic deviates (used where only the schedule matters)
			m.randCount++
			x := float64(m.randCount) * 0.6180339887498949
			return x - float64(int(x))
		}
		t := m.newInput(label, "f64", m.floatSort(64))
		v := symFloat{t, 64}
		m.assume(m.binop(token.GEQ, nil, v, float64(0)))
		m.assume(m.binop(token.LSS, nil, v, float64(1)))
		m.lastRand = v
		return v
	}
	newOpaque := func(fr *frame) value {
		rt := fr.fn.Signature.Results().At(0).Type()
		if p, ok := rt.Underlying().(*types.Pointer); ok {
			cell := zero(p.Elem())
			return &cell
		}
		return zero(rt)
	}
	reg("math/rand.NewSource", used("math/rand (arbitrary values in the documented range)", func(m *Machine, fr *frame, a []value) value {
		return iface{}
	}))
	reg("math/rand.New", used("math/rand (arbitrary values in the documented range)", func(m *Machine, fr *frame, a []value) value {
		return newOpaque(fr)
	}))
	reg(vpPath+".NewRand", used("math/rand (arbitrary values in the documented range)", func(m *Machine, fr *frame, a []value) value {
		return newOpaque(fr)
	}))
	reg(vpPath+".LastRandFloat", func(m *Machine, fr *frame, a []value) value {
		if m.lastRand == nil {
			panic(engineFault{"LastRandFloat before any Float64"})
		}
		return m.lastRand
	})
	reg("math/rand.Int63", func(m *Machine, fr *frame, a []value) value { return int64(0) })
	reg("math/rand.Int", func(m *Machine, fr *frame, a []value) value { return int(0) })
	reg("math/rand.Seed", func(m *Machine, fr *frame, a []value) value { return nil })
	reg("math/rand.Float64", used("math/rand (arbitrary values in the documented range)", func(m *Machine, fr *frame, a []value) value {
		return unitFloat(m, "rand.Float64")
	}))
	reg("(*math/rand.Rand).Float64", used("math/rand (arbitrary values in the documented range)", func(m *Machine, fr *frame, a []value) value {
		return unitFloat(m, "rand.Float64")
	}))
	normFloat := func(m *Machine, fr *frame, a []value) value {
		if m.h.Params["concreteRand"] == 1 {
			m.randCount++
			x := float64(m.randCount) * 0.6180339887498949
			return 4*(x-float64(int(x))) - 2.03125
		}
		t := m.newInput("rand.NormFloat64", "f64", m.floatSort(64))
		if m.mode == ModeFP {
			m.addPC(m.tt.Not(m.tt.App("fp.isNaN", sortBool, t)))
			m.addPC(m.tt.Not(m.tt.App("fp.isInfinite", sortBool, t)))
		}
		v := symFloat{t, 64}
		// harness option "normTriples": consecutive triples of normal
		// deviates are assumed to have a norm in (0.02, 50) (rejection loops
		// that retry outside such a range are then outside the claim)
		if m.h.Params["normTriples"] == 1 && m.mode == ModeReal {
			m.normBuf = append(m.normBuf, v)
			if len(m.normBuf) == 3 {
				var sq value = float64(0)
				for _, x := range m.normBuf {
					sq = m.binop(token.ADD, nil, sq, m.binop(token.MUL, nil, x, x))
				}
				m.assume(m.binop(token.GTR, nil, sq, float64(0.02*0.02)))
				m.assume(m.binop(token.LSS, nil, sq, float64(50*50)))
				m.normBuf = nil
			}
		}
		return v
	}
	reg("math/rand.NormFloat64", used("math/rand (arbitrary values in the documented range)", normFloat))
	reg("(*math/rand.Rand).NormFloat64", used("math/rand (arbitrary values in the documented range)", normFloat))
	intn := func(m *Machine, fr *frame, a []value) value {
		n := a[len(a)-1]
		nc, ok := n.(int)
		if !ok {
			panic(pathEnd{status: StUnsupported, msg: "rand.Intn with symbolic bound"})
		}
		if nc <= 0 {
			panic(targetPanic{v: "invalid argument to Intn"})
		}
		t := m.newInput("rand.Intn", "int64", sortBV(64))
		m.addPC(m.tt.App("bvsge", sortBool, t, m.tt.BVLit(0, 64)))
		m.addPC(m.tt.App("bvslt", sortBool, t, m.tt.BVLit(uint64(nc), 64)))
		return symInt{t, types.Int}
	}
	reg("math/rand.Intn", used("math/rand (arbitrary values in the documented range)", intn))
	reg("(*math/rand.Rand).Intn", used("math/rand (arbitrary values in the documented range)", intn))
}
