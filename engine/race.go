package main

// Schedule exploration + happens-before race detection (property C13).
//
// vp.ExploreSchedules() turns on (a) preemption at every synchronisation
// operation (the next goroutine to run is a free choice, so the path explorer
// enumerates every interleaving at synchronisation granularity) and (b)
// recording of synchronisation events and plain heap accesses. When the path
// ends, a vector-clock analysis of the recorded (sequentially consistent)
// execution reports two conflicting plain accesses of different goroutines
// that are not ordered by happens-before. For data-race-free programs every
// SC execution at synchronisation granularity is race-free, and a racy program
// has such an execution with an unordered conflicting pair, so enumerating the
// synchronisation-level schedules is complete for the goroutines and bounds of
// the harness.
//
// Preemption happens before the operations whose outcome depends on the order
// (lock acquisition, atomic load/store, channel operations) and whenever a
// goroutine blocks or ends. Releases (unlock, WaitGroup.Done), WaitGroup.Wait
// and `go` are not preemption points: the happens-before relation computed
// afterwards, and hence the set of reported races, does not depend on where a
// goroutine is descheduled between two order-sensitive operations.

import (
	"fmt"
	"sort"
)

type accessEvent struct {
	gid   int
	kind  string // lock unlock aload astore wgdone wgwait spawn chansend chanrecv read write mread mwrite
	obj   interface{}
	child int
	pos   string
}

type vclock []int

func (v vclock) get(i int) int {
	if i < len(v) {
		return v[i]
	}
	return 0
}

func (v *vclock) set(i, x int) {
	for len(*v) <= i {
		*v = append(*v, 0)
	}
	(*v)[i] = x
}

func (v *vclock) join(o vclock) {
	for i, x := range o {
		if x > v.get(i) {
			v.set(i, x)
		}
	}
}

func (v vclock) copy() vclock { return append(vclock(nil), v...) }

// record appends an event (only while schedule exploration is on and more
// than one goroutine exists).
func (m *Machine) record(kind string, obj interface{}, child int) {
	if !m.exploreSched || m.sched == nil || len(m.sched.gors) < 2 {
		return
	}
	gid := 0
	if m.sched.cur != nil {
		gid = m.sched.cur.id
	}
	pos := ""
	if kind == "read" || kind == "write" || kind == "mread" || kind == "mwrite" {
		st := m.stack()
		for _, s := range st {
			pos = s
			break
		}
		if len(st) > 1 {
			pos += " <- " + st[1]
		}
	}
	m.accesses = append(m.accesses, accessEvent{gid: gid, kind: kind, obj: obj, child: child, pos: pos})
	if len(m.accesses) > 400000 {
		panic(pathEnd{status: StUnsupported, msg: "more than 400000 recorded memory events in schedule exploration"})
	}
}

// recordValueAccess records a plain read/write of the cell p and, for
// aggregates, of its leaf cells (so that a whole-struct copy conflicts with a
// field write).
func (m *Machine) recordValueAccess(kind string, p *value) {
	if !m.exploreSched || m.sched == nil || len(m.sched.gors) < 2 || p == nil {
		return
	}
	m.record(kind, p, 0)
	var walk func(v *value, depth int)
	walk = func(v *value, depth int) {
		if depth > 3 {
			return
		}
		switch x := (*v).(type) {
		case structure:
			for i := range x {
				m.record(kind, &x[i], 0)
				walk(&x[i], depth+1)
			}
		case array:
			for i := range x {
				m.record(kind, &x[i], 0)
				walk(&x[i], depth+1)
			}
		}
	}
	walk(p, 0)
}

// preempt lets any runnable goroutine run next (a free choice explored by the
// path explorer).
func (m *Machine) preempt() {
	if !m.exploreSched || m.sched == nil {
		return
	}
	s := m.sched
	self := s.cur
	if self == nil || s.killed {
		return
	}
	var runnable []*gor
	for _, g := range s.gors {
		if g.done {
			continue
		}
		if g != self && g.canRun != nil && !g.canRun() {
			continue
		}
		runnable = append(runnable, g)
	}
	if len(runnable) < 2 {
		return
	}
	m.schedPoints++
	if m.schedPoints > 200 {
		panic(pathEnd{status: StUnsupported, msg: "more than 200 scheduling points on one path"})
	}
	c := m.chooseFree(len(runnable))
	if runnable[c] != self {
		m.switchTo(runnable[c], self, false)
	}
}

type raceReport struct {
	a, b accessEvent
}

// analyseRaces runs the vector-clock analysis over the recorded execution.
func (m *Machine) analyseRaces() []raceReport {
	vc := map[int]*vclock{}
	get := func(g int) *vclock {
		if v, ok := vc[g]; ok {
			return v
		}
		v := &vclock{}
		v.set(g, 1)
		vc[g] = v
		return v
	}
	syncClock := map[interface{}]*vclock{}
	sc := func(o interface{}) *vclock {
		if v, ok := syncClock[o]; ok {
			return v
		}
		v := &vclock{}
		syncClock[o] = v
		return v
	}
	type lastAcc struct {
		ev    accessEvent
		epoch int
	}
	lastWrite := map[interface{}]*lastAcc{}
	reads := map[interface{}]map[int]*lastAcc{}
	var races []raceReport
	seen := map[string]bool{}
	report := func(a, b accessEvent) {
		k := a.pos + "|" + b.pos
		if seen[k] {
			return
		}
		seen[k] = true
		races = append(races, raceReport{a, b})
	}
	for _, e := range m.accesses {
		c := get(e.gid)
		switch e.kind {
		case "spawn":
			ch := get(e.child)
			ch.join(*c)
			c.set(e.gid, c.get(e.gid)+1)
		case "lock", "aload", "wgwait", "chanrecv", "oncewait":
			c.join(*sc(e.obj))
		case "unlock", "astore", "wgdone", "chansend", "oncedone":
			sc(e.obj).join(*c)
			c.set(e.gid, c.get(e.gid)+1)
		case "read", "mread":
			if w := lastWrite[e.obj]; w != nil && w.ev.gid != e.gid && w.epoch > c.get(w.ev.gid) {
				report(w.ev, e)
			}
			if reads[e.obj] == nil {
				reads[e.obj] = map[int]*lastAcc{}
			}
			reads[e.obj][e.gid] = &lastAcc{e, c.get(e.gid)}
		case "write", "mwrite":
			if w := lastWrite[e.obj]; w != nil && w.ev.gid != e.gid && w.epoch > c.get(w.ev.gid) {
				report(w.ev, e)
			}
			for g, r := range reads[e.obj] {
				if g != e.gid && r.epoch > c.get(g) {
					report(r.ev, e)
				}
			}
			lastWrite[e.obj] = &lastAcc{e, c.get(e.gid)}
			delete(reads, e.obj)
		}
	}
	sort.Slice(races, func(i, j int) bool { return races[i].a.pos+races[i].b.pos < races[j].a.pos+races[j].b.pos })
	return races
}

func (r raceReport) String() string {
	return fmt.Sprintf("%s by goroutine %d at %s  ||  %s by goroutine %d at %s", r.a.kind, r.a.gid, r.a.pos, r.b.kind, r.b.gid, r.b.pos)
}
