package main

// Check driver: runs the harnesses of a property, replays counterexamples
// natively, applies the known-findings list, writes the evidence file.

import (
	"bufio"
	"bytes"
	"encoding/json"
	"fmt"
	"math"
	"math/big"
	"os"
	"os/exec"
	"path/filepath"
	"regexp"
	"sort"
	"strconv"
	"strings"
	"sync"
	"time"
)

type replayFileOut struct {
	Property string         `json:"property"`
	Harness  string         `json:"harness"`
	Pkg      string         `json:"pkg"`
	Instance string         `json:"instance"`
	Label    string         `json:"label"`
	Kind     string         `json:"kind"`
	Msg      string         `json:"msg"`
	Params   map[string]int `json:"params"`
	RealMode bool           `json:"real_mode"`
	Inputs   []InputRec     `json:"inputs"`
	Stack    []string       `json:"stack"`
}

type knownEntry struct {
	fixed    bool
	property string
	harness  string
	instance string
	label    string
	site     string
	what     string
}

func loadKnown(verif string) []knownEntry {
	f, err := os.Open(filepath.Join(verif, "known_findings.txt"))
	if err != nil {
		return nil
	}
	defer f.Close()
	var res []knownEntry
	sc := bufio.NewScanner(f)
	re := regexp.MustCompile(`(\w+)=("[^"]*"|\S+)`)
	for sc.Scan() {
		line := strings.TrimSpace(sc.Text())
		if line == "" || strings.HasPrefix(line, "#") {
			continue
		}
		var e knownEntry
		switch {
		case strings.HasPrefix(line, "known:"):
		case strings.HasPrefix(line, "fixed:"):
			e.fixed = true
		default:
			continue
		}
		if i := strings.Index(line, " what="); i >= 0 {
			e.what = strings.Trim(line[i+6:], "\"")
			line = line[:i]
		}
		for _, mt := range re.FindAllStringSubmatch(line, -1) {
			v := strings.Trim(mt[2], "\"")
			switch mt[1] {
			case "property":
				e.property = v
			case "harness":
				e.harness = v
			case "instance":
				e.instance = v
			case "label":
				e.label = v
			case "site":
				e.site = v
			}
		}
		res = append(res, e)
	}
	return res
}

func (k knownEntry) matches(prop string, f *Finding) bool {
	if k.fixed || k.property != prop || k.harness != f.Harness {
		return false
	}
	if k.label != "" && k.label != f.Label {
		return false
	}
	if k.instance != "" && k.instance != "*" && k.instance != f.Instance {
		return false
	}
	if k.site != "" {
		found := false
		for _, s := range f.Stack {
			if strings.Contains(s, k.site) {
				found = true
				break
			}
		}
		if !found {
			return false
		}
	}
	return true
}

// ---- model value conversion ----

func canonValue(kind, text string, realMode bool) string {
	text = strings.TrimSpace(text)
	switch {
	case kind == "bool":
		return text
	case kind == "choice":
		return text
	case strings.HasPrefix(kind, "int"):
		bits, _ := strconv.Atoi(kind[3:])
		u, ok := parseBV(text)
		if !ok {
			return text
		}
		if bits < 64 && u&(1<<uint(bits-1)) != 0 {
			return strconv.FormatInt(int64(u)-(1<<uint(bits)), 10)
		}
		return strconv.FormatInt(int64(u), 10)
	case kind == "f64" || kind == "f32":
		var f float64
		if realMode {
			f = parseRealModel(text)
		} else {
			f = parseFPModel(text, kind == "f32")
		}
		return fmt.Sprintf("0x%016x", math.Float64bits(f))
	}
	return text
}

func parseFPModel(text string, is32 bool) float64 {
	sx := parseSexp(text)
	if sx == nil {
		return math.NaN()
	}
	if sx.isList && len(sx.list) >= 2 && sx.list[0].atom == "_" {
		switch sx.list[1].atom {
		case "+zero":
			return 0
		case "-zero":
			return math.Copysign(0, -1)
		case "+oo":
			return math.Inf(1)
		case "-oo":
			return math.Inf(-1)
		case "NaN":
			return math.NaN()
		}
	}
	if sx.isList && len(sx.list) == 4 && sx.list[0].atom == "fp" {
		var bits uint64
		for _, part := range sx.list[1:] {
			s := part.atom
			if strings.HasPrefix(s, "#b") {
				for _, c := range s[2:] {
					bits = bits<<1 | uint64(c-'0')
				}
			} else if strings.HasPrefix(s, "#x") {
				for _, c := range s[2:] {
					v, _ := strconv.ParseUint(string(c), 16, 8)
					bits = bits<<4 | v
				}
			}
		}
		if is32 {
			return float64(math.Float32frombits(uint32(bits)))
		}
		return math.Float64frombits(bits)
	}
	return math.NaN()
}

func parseRealModel(text string) float64 {
	sx := parseSexp(text)
	if sx == nil {
		return math.NaN()
	}
	r, ok := evalRealSexp(sx)
	if !ok {
		return math.NaN()
	}
	f, _ := r.Float64()
	return f
}

func evalRealSexp(sx *sexp) (*big.Rat, bool) {
	if !sx.isList {
		s := strings.TrimSuffix(sx.atom, "?")
		r, ok := new(big.Rat).SetString(s)
		return r, ok
	}
	if len(sx.list) == 0 {
		return nil, false
	}
	switch sx.list[0].atom {
	case "-":
		if len(sx.list) == 2 {
			r, ok := evalRealSexp(sx.list[1])
			if !ok {
				return nil, false
			}
			return r.Neg(r), true
		}
		if len(sx.list) == 3 {
			a, ok1 := evalRealSexp(sx.list[1])
			b, ok2 := evalRealSexp(sx.list[2])
			if ok1 && ok2 {
				return a.Sub(a, b), true
			}
		}
	case "/":
		if len(sx.list) == 3 {
			a, ok1 := evalRealSexp(sx.list[1])
			b, ok2 := evalRealSexp(sx.list[2])
			if ok1 && ok2 && b.Sign() != 0 {
				return a.Quo(a, b), true
			}
		}
	case "+":
		if len(sx.list) == 3 {
			a, ok1 := evalRealSexp(sx.list[1])
			b, ok2 := evalRealSexp(sx.list[2])
			if ok1 && ok2 {
				return a.Add(a, b), true
			}
		}
	case "*":
		if len(sx.list) == 3 {
			a, ok1 := evalRealSexp(sx.list[1])
			b, ok2 := evalRealSexp(sx.list[2])
			if ok1 && ok2 {
				return a.Mul(a, b), true
			}
		}
	}
	return nil, false
}

// ---- native replay ----

var harnessFuncRe = regexp.MustCompile(`(?m)^func (VP_\w+)\(\)`)

// writeNativeOverlay generates the registry + test files and the overlay json.
func writeNativeOverlay(eng *Engine, outDir string) (string, error) {
	if err := os.MkdirAll(outDir, 0755); err != nil {
		return "", err
	}
	replace := map[string]string{}
	perDir := map[string][]string{} // virtual dir -> harness names
	pkgName := map[string]string{}
	pkgRe := regexp.MustCompile(`(?m)^package (\w+)`)
	for virt, real := range eng.overlayFiles {
		if strings.HasPrefix(real, "cut:") {
			// transformed copy of a /repo file
			rel, _ := filepath.Rel(eng.repo, virt)
			real = filepath.Join(outDir, "cut_"+strings.ReplaceAll(rel, "/", "_"))
			if err := os.WriteFile(real, eng.overlay[virt], 0644); err != nil {
				return "", err
			}
			replace[virt] = real
			continue
		}
		replace[virt] = real
		if strings.Contains(virt, "/internal/vp/") {
			continue
		}
		dir := filepath.Dir(virt)
		src := eng.overlay[virt]
		for _, mt := range harnessFuncRe.FindAllSubmatch(src, -1) {
			perDir[dir] = append(perDir[dir], string(mt[1]))
		}
		if mt := pkgRe.FindSubmatch(src); mt != nil {
			pkgName[dir] = string(mt[1])
		}
	}
	for dir, names := range perDir {
		sort.Strings(names)
		var sb strings.Builder
		fmt.Fprintf(&sb, "//go:build verif\n\npackage %s\n\nimport (\n\t\"os\"\n\t\"testing\"\n\n\t\"%s/internal/vp\"\n)\n\n", pkgName[dir], modulePath)
		sb.WriteString("func TestVPReplay(t *testing.T) {\n\th := map[string]func(){\n")
		for _, n := range names {
			fmt.Fprintf(&sb, "\t\t%q: %s,\n", n, n)
		}
		sb.WriteString("\t}\n\tif l := os.Getenv(\"VP_REPLAY_LIST\"); l != \"\" {\n\t\tvp.RunList(l, h)\n\t\treturn\n\t}\n\tif err := vp.Load(os.Getenv(\"VP_REPLAY\")); err != nil {\n\t\tt.Fatal(err)\n\t}\n\tif !vp.Run(h) {\n\t\tt.Fail()\n\t}\n}\n")
		rel, _ := filepath.Rel(eng.repo, dir)
		real := filepath.Join(outDir, "zz_vp_replay_"+strings.ReplaceAll(rel, "/", "_")+"_test.go")
		if err := os.WriteFile(real, []byte(sb.String()), 0644); err != nil {
			return "", err
		}
		replace[filepath.Join(dir, "zz_vp_replay_test.go")] = real
	}
	data, _ := json.MarshalIndent(map[string]interface{}{"Replace": replace}, "", " ")
	p := filepath.Join(outDir, "overlay.json")
	if err := os.WriteFile(p, data, 0644); err != nil {
		return "", err
	}
	return p, nil
}

// nativeReplay runs the replay file against the real build. Returns the
// VP-REPLAY-RESULT text ("timeout" if the run did not finish).
func nativeReplay(repo, overlayJSON, pkgDir, replayPath string, gomaxprocs string, timeout time.Duration) (string, string) {
	args := []string{"test", "-v", "-tags", "verif", "-vet=off", "-count=1", "-overlay", overlayJSON,
		"-run", "^TestVPReplay$", "-timeout", fmt.Sprintf("%ds", int(timeout.Seconds())), "./" + pkgDir + "/"}
	if gomaxprocs == "race" {
		// data-race findings are confirmed by the Go race detector
		args = []string{"test", "-race", "-v", "-tags", "verif", "-vet=off", "-count=20", "-overlay", overlayJSON,
			"-run", "^TestVPReplay$", "-timeout", fmt.Sprintf("%ds", int(timeout.Seconds())), "./" + pkgDir + "/"}
		gomaxprocs = "4"
	}
	cmd := exec.Command("go", args...)
	cmd.Dir = repo
	cmd.Env = append(os.Environ(), "GOFLAGS=-mod=mod", "GOPROXY=off", "GOSUMDB=off", "GOTOOLCHAIN=local", "VP_REPLAY="+replayPath)
	if gomaxprocs != "" {
		cmd.Env = append(cmd.Env, "GOMAXPROCS="+gomaxprocs)
	}
	var out bytes.Buffer
	cmd.Stdout = &out
	cmd.Stderr = &out
	done := make(chan error, 1)
	if err := cmd.Start(); err != nil {
		return "error " + err.Error(), ""
	}
	go func() { done <- cmd.Wait() }()
	select {
	case <-done:
	case <-time.After(timeout + 120*time.Second):
		cmd.Process.Kill()
		return "timeout", out.String()
	}
	text := out.String()
	if strings.Contains(text, "WARNING: DATA RACE") {
		return "race", text
	}
	for _, line := range strings.Split(text, "\n") {
		if strings.HasPrefix(line, "VP-REPLAY-RESULT: ") {
			return strings.TrimPrefix(line, "VP-REPLAY-RESULT: "), text
		}
	}
	if strings.Contains(text, "test timed out") {
		return "timeout", text
	}
	if strings.Contains(text, "all goroutines are asleep") {
		return "deadlock", text
	}
	if strings.Contains(text, "fatal error:") || strings.Contains(text, "panic:") {
		return "panic (process)", text
	}
	return "no-result", text
}

// nativeReplayList replays several files in one test run; returns file -> result.
func nativeReplayList(repo, overlayJSON, pkgDir, listPath string, timeout time.Duration) map[string]string {
	args := []string{"test", "-v", "-tags", "verif", "-vet=off", "-count=1", "-overlay", overlayJSON,
		"-run", "^TestVPReplay$", "-timeout", fmt.Sprintf("%ds", int(timeout.Seconds())), "./" + pkgDir + "/"}
	cmd := exec.Command("go", args...)
	cmd.Dir = repo
	cmd.Env = append(os.Environ(), "GOFLAGS=-mod=mod", "GOPROXY=off", "GOSUMDB=off", "GOTOOLCHAIN=local", "VP_REPLAY_LIST="+listPath)
	var out bytes.Buffer
	cmd.Stdout = &out
	cmd.Stderr = &out
	done := make(chan error, 1)
	res := map[string]string{}
	if err := cmd.Start(); err != nil {
		return res
	}
	go func() { done <- cmd.Wait() }()
	select {
	case <-done:
	case <-time.After(timeout + 120*time.Second):
		cmd.Process.Kill()
	}
	re := regexp.MustCompile(`^VP-REPLAY-RESULT\[([^\]]+)\]: (.*)$`)
	for _, line := range strings.Split(out.String(), "\n") {
		if mt := re.FindStringSubmatch(line); mt != nil {
			res[mt[1]] = mt[2]
		}
	}
	return res
}

func reproduced(f *Finding, result string) bool {
	switch f.Kind {
	case "assert":
		// the native run stops at the first failing assertion of the harness,
		// which may be an earlier one than the solver's (e.g. one the solver
		// answered unknown for); any failed assertion of the real code on the
		// model input is a reproduced violation
		return strings.HasPrefix(result, "assert-failed ")
	case "panic":
		return strings.HasPrefix(result, "panic")
	case "nontermination":
		return result == "timeout"
	case "deadlock":
		return result == "deadlock" || result == "timeout"
	case "race":
		return result == "race"
	}
	return false
}

// ---- check command ----

type evidence struct {
	PropertyID  string                 `json:"property_id"`
	Tier        string                 `json:"tier"`
	Seed        int                    `json:"seed"`
	Level       string                 `json:"level"`
	Coverage    map[string]interface{} `json:"coverage"`
	Assumptions []string               `json:"assumptions"`
	WallS       float64                `json:"wall_s"`
	Violations  int                    `json:"violations"`
}

func cmdCheck(repo, verif, prop, tier, only string) int {
	t0 := time.Now()
	props, err := loadProps(verif)
	if err != nil {
		fmt.Fprintln(os.Stderr, "props.json:", err)
		return 3
	}
	spec := props[prop]
	if spec == nil {
		fmt.Fprintln(os.Stderr, "no such property in props.json:", prop)
		return 3
	}
	seed, _ := strconv.Atoi(os.Getenv("VERIF_SEED"))
	dirs := map[string]bool{}
	for _, h := range spec.Harnesses {
		dirs[h.Pkg] = true
	}
	var dirList []string
	for d := range dirs {
		dirList = append(dirList, d)
	}
	sort.Strings(dirList)
	eng, err := NewEngine(repo, verif, dirList)
	if err != nil {
		fmt.Fprintln(os.Stderr, "load:", err)
		return 3
	}
	if err := eng.runInits(); err != nil {
		fmt.Fprintln(os.Stderr, err)
		return 3
	}
	fmt.Printf("symgo: %s tier=%s loaded %d packages in %.1fs\n", prop, tier, len(eng.pkgs), eng.loadTime.Seconds())

	var results []*HarnessRun
	var specs []HarnessSpec
	for _, hs := range spec.Harnesses {
		if only != "" && !strings.Contains(hs.Fn, only) {
			continue
		}
		if hs.ThoroughOnly && tier != "thorough" {
			continue
		}
		insts := hs.Quick
		if tier == "thorough" && hs.Thorough != nil {
			insts = hs.Thorough
		}
		if len(insts) == 0 {
			insts = []map[string]int{{}}
		}
		for _, p := range insts {
			h := &HarnessRun{Name: hs.Fn, Pkg: modulePath + "/" + hs.Pkg, Mode: parseMode(hs.Mode), Params: p, Tier: tier,
				timeoutMS: hs.TimeoutMS, stepLimit: hs.StepLimit, maxPaths: hs.MaxPaths, maxWallS: hs.MaxWallS, noIfConv: hs.NoIfConv, maxConcretize: hs.MaxConcretize, solverBin: hs.Solver}
			if tier == "thorough" && h.timeoutMS != 0 {
				h.timeoutMS *= 3
			}
			if w := os.Getenv("VERIF_WORKERS"); w != "" {
				h.workers, _ = strconv.Atoi(w)
			} else {
				h.workers = 8
			}
			h.Instance = instanceName(p)
			results = append(results, h)
			specs = append(specs, hs)
		}
	}
	{
		par := 2
		if v := os.Getenv("VERIF_PAR"); v != "" {
			par, _ = strconv.Atoi(v)
		}
		sem := make(chan struct{}, par)
		var wg sync.WaitGroup
		var pmu sync.Mutex
		for _, h := range results {
			wg.Add(1)
			sem <- struct{}{}
			go func(h *HarnessRun) {
				defer wg.Done()
				defer func() { <-sem }()
				eng.Explore(h)
				r := &h.Result
				pmu.Lock()
				fmt.Printf("  %-30s %-24s paths=%-6d queries=%-6d unsat=%-6d sat=%-4d unk=%-3d solver=%.1fs wall=%.1fs findings=%d %v\n",
					h.Name, h.Instance, r.Paths, r.Queries, r.Unsat, r.Sat, r.UnknownQ, r.SolverS, r.WallS, len(r.Findings), r.ByStatus)
				pmu.Unlock()
			}(h)
		}
		wg.Wait()
	}

	// counterexample refinement: a model found under the abstractMul
	// over-approximation is looked for again with the precise encoding
	for _, h := range results {
		if h.Params["abstractMul"] != 1 || len(h.Result.Findings) == 0 {
			continue
		}
		p2 := map[string]int{}
		for k, v := range h.Params {
			p2[k] = v
		}
		p2["abstractMul"] = 0
		h2 := &HarnessRun{Name: h.Name, Pkg: h.Pkg, Mode: h.Mode, Params: p2, Tier: h.Tier, Instance: h.Instance,
			timeoutMS: 30000, maxWallS: 600, workers: 8}
		eng.Explore(h2)
		fmt.Printf("  %-30s %-24s (precise re-run after abstract counterexample) paths=%d findings=%d unk=%d wall=%.1fs\n",
			h.Name, h.Instance, h2.Result.Paths, len(h2.Result.Findings), h2.Result.UnknownQ, h2.Result.WallS)
		r, r2 := &h.Result, &h2.Result
		r.Paths += r2.Paths
		r.Instrs += r2.Instrs
		r.Queries += r2.Queries
		r.Unsat += r2.Unsat
		r.Sat += r2.Sat
		r.SolverS += r2.SolverS
		if len(r2.Findings) > 0 {
			for i := range r2.Findings {
				r2.Findings[i].Params = h.Params
			}
			r.Findings = r2.Findings
		}
	}

	known := loadKnown(verif)
	outDir := filepath.Join(envOr("VERIF_OUT", filepath.Join(verif, "out")), prop)
	os.MkdirAll(outDir, 0755)
	var overlayJSON string
	violations := 0
	knownHits := 0
	var problems []string
	var samples []interface{}
	var states, transitions, queries, unsat, sat, unknownQ, asserts int
	var solverS float64
	validated := 0
	stubSet := map[string]bool{}

	for i, h := range results {
		r := &h.Result
		states += r.Paths
		transitions += int(r.Instrs)
		queries += r.Queries
		unsat += r.Unsat
		sat += r.Sat
		unknownQ += r.UnknownQ
		asserts += r.Asserts
		solverS += r.SolverS
		for _, s := range r.Stubs {
			stubSet[s] = true
		}
		for _, p := range r.Problems {
			problems = append(problems, h.Name+"["+h.Instance+"]: "+p)
		}
		hasEnd := false
		for _, l := range r.Reached {
			if l == "end" {
				hasEnd = true
			}
		}
		// dedupe findings by (label, kind)
		seen := map[string]bool{}
		var kept []Finding
		for _, f := range r.Findings {
			k := f.Label + "|" + f.Kind
			if seen[k] {
				continue
			}
			seen[k] = true
			kept = append(kept, f)
		}
		if !hasEnd && len(kept) == 0 && len(r.Problems) == 0 {
			problems = append(problems, h.Name+"["+h.Instance+"]: vacuous: no path reaches vp.Reach(\"end\")")
		}
		var sampleFindings []map[string]string
		for fi := range kept {
			f := &kept[fi]
			// convert model values
			for j := range f.Inputs {
				f.Inputs[j].Value = canonValue(f.Inputs[j].Kind, f.Inputs[j].Value, h.Mode == ModeReal)
				for k := range f.Inputs[j].Args {
					f.Inputs[j].Args[k] = canonValue("f64", f.Inputs[j].Args[k], h.Mode == ModeReal)
				}
			}
			rf := replayFileOut{Property: prop, Harness: f.Harness, Pkg: specs[i].Pkg, Instance: f.Instance, Label: f.Label, Kind: f.Kind,
				Msg: f.Msg, Params: f.Params, RealMode: h.Mode == ModeReal, Inputs: f.Inputs, Stack: f.Stack}
			name := fmt.Sprintf("%s__%s__%s.replay.json", f.Harness, sanitize(f.Instance), sanitize(f.Label))
			rp := filepath.Join(outDir, name)
			data, _ := json.MarshalIndent(rf, "", " ")
			os.WriteFile(rp, data, 0644)
			if overlayJSON == "" {
				overlayJSON, err = writeNativeOverlay(eng, filepath.Join(envOr("VERIF_OUT", filepath.Join(verif, "out")), "native"))
				if err != nil {
					problems = append(problems, "cannot write native overlay: "+err.Error())
					continue
				}
			}
			gmp := ""
			for _, in := range f.Inputs {
				if in.Label == "numcpu" {
					gmp = in.Value
				}
			}
			to := 60 * time.Second
			if f.Kind == "nontermination" {
				to = 20 * time.Second
			}
			if f.Kind == "race" {
				gmp = "race"
				to = 300 * time.Second
			}
			result, _ := nativeReplay(repo, overlayJSON, specs[i].Pkg, rp, gmp, to)
			validated++
			ok := reproduced(f, result)
			desc := fmt.Sprintf("%s[%s] %s (%s): %s", f.Harness, f.Instance, f.Label, f.Kind, f.Msg)
			sampleFindings = append(sampleFindings, map[string]string{"label": f.Label, "kind": f.Kind, "native_replay": result, "replay_file": rp})
			if !ok {
				problems = append(problems, "counterexample did not reproduce natively ("+result+"): "+desc+" replay="+rp)
				continue
			}
			isKnown := false
			for _, k := range known {
				if k.matches(prop, f) {
					fmt.Printf("KNOWN-FINDING: property=%s %s — %s\n", prop, desc, k.what)
					isKnown = true
					knownHits++
					break
				}
			}
			if !isKnown {
				fmt.Printf("VIOLATION property=%s replay=%s\n", prop, rp)
				fmt.Printf("  %s\n  native replay: %s\n", desc, result)
				for _, s := range f.Stack {
					fmt.Printf("    at %s\n", s)
				}
				violations++
			}
		}
		sample := map[string]interface{}{
			"harness": r.Name, "instance": r.Instance, "what": specs[i].What, "package": r.Pkg, "float_mode": r.FloatMode, "bounds": r.Params,
			"functions_encoded": r.Functions, "stubs": r.Stubs, "paths": r.Paths, "paths_by_status": r.ByStatus,
			"queries": r.Queries, "unsat": r.Unsat, "sat": r.Sat, "unknown": r.UnknownQ, "solver_s": round3(r.SolverS), "wall_s": round3(r.WallS),
			"assertions_discharged": r.Asserts, "implicit_guards": r.Guards, "reached": r.Reached, "ssa_instructions": r.Instrs,
		}
		if len(r.ReachWitness) > 0 {
			w := r.ReachWitness
			if len(w) > 12 {
				w = w[:12]
			}
			var ws []string
			for _, in := range w {
				ws = append(ws, in.Label+"="+canonValue(in.Kind, in.Value, h.Mode == ModeReal))
			}
			sample["reach_witness"] = ws
		}
		if len(sampleFindings) > 0 {
			sample["counterexamples"] = sampleFindings
		}
		if len(r.Problems) > 0 {
			sample["problems"] = r.Problems
		}
		samples = append(samples, sample)
	}

	// ---- translator validation: the reach witness of every harness instance
	// (a model of a path that passed all its assertions symbolically) is
	// replayed against the natively compiled code, one `go test` per package.
	witnessOK, witnessTried := 0, 0
	if os.Getenv("VERIF_NO_WITNESS") == "" {
		perPkg := map[string][]string{}
		fileToRun := map[string]*HarnessRun{}
		for i, h := range results {
			r := &h.Result
			if len(r.ReachWitness) == 0 || len(r.Findings) > 0 {
				continue
			}
			ins := make([]InputRec, len(r.ReachWitness))
			copy(ins, r.ReachWitness)
			skip := false
			for j := range ins {
				ins[j].Value = canonValue(ins[j].Kind, ins[j].Value, h.Mode == ModeReal)
				if len(ins[j].Args) > 0 {
					args := make([]string, len(ins[j].Args))
					for k := range ins[j].Args {
						args[k] = canonValue("f64", ins[j].Args[k], h.Mode == ModeReal)
					}
					ins[j].Args = args
				}
				if ins[j].Label == "rand.NormFloat64" {
					skip = true // not replayable natively
				}
			}
			if skip {
				continue
			}
			rf := replayFileOut{Property: prop, Harness: h.Name, Pkg: specs[i].Pkg, Instance: h.Instance, Label: "witness", Kind: "witness",
				Params: h.Params, RealMode: h.Mode == ModeReal, Inputs: ins}
			rp := filepath.Join(outDir, fmt.Sprintf("witness__%s__%s.replay.json", h.Name, sanitize(h.Instance)))
			data, _ := json.MarshalIndent(rf, "", " ")
			os.WriteFile(rp, data, 0644)
			perPkg[specs[i].Pkg] = append(perPkg[specs[i].Pkg], rp)
			fileToRun[rp] = h
		}
		if len(perPkg) > 0 && overlayJSON == "" {
			overlayJSON, err = writeNativeOverlay(eng, filepath.Join(envOr("VERIF_OUT", filepath.Join(verif, "out")), "native"))
			if err != nil {
				problems = append(problems, "cannot write native overlay: "+err.Error())
			}
		}
		for pkg, files := range perPkg {
			if overlayJSON == "" {
				break
			}
			listPath := filepath.Join(outDir, "witness_list_"+sanitize(pkg)+".txt")
			os.WriteFile(listPath, []byte(strings.Join(files, "\n")+"\n"), 0644)
			resmap := nativeReplayList(repo, overlayJSON, pkg, listPath, 300*time.Second)
			for _, f := range files {
				witnessTried++
				h := fileToRun[f]
				res := resmap[f]
				switch {
				case res == "ok":
					witnessOK++
				case strings.HasPrefix(res, "assert-failed") || strings.HasPrefix(res, "panic"):
					if h.Mode == ModeReal && strings.HasPrefix(res, "assert-failed") {
						// exact real-arithmetic equalities may fail by rounding natively
						fmt.Printf("  note: witness of %s[%s] fails natively in float64 arithmetic (%s); not counted as validated\n", h.Name, h.Instance, res)
					} else {
						problems = append(problems, fmt.Sprintf("translator validation: %s[%s] passes symbolically but its witness input fails natively (%s) replay=%s", h.Name, h.Instance, res, f))
					}
				default:
					// assume-false after rounding of real-mode model values, divergence, no result
					fmt.Printf("  note: witness of %s[%s] not validated natively (%s)\n", h.Name, h.Instance, res)
				}
			}
		}
	}
	validated += witnessOK

	var stubs []string
	for s := range stubSet {
		stubs = append(stubs, s)
	}
	sort.Strings(stubs)
	assumptions := append([]string{}, spec.Assumptions...)
	assumptions = append(assumptions,
		"bounded: only the harness instances listed under coverage.samples (their bounds are the 'bounds' maps) are decided; everything outside is not claimed: "+spec.Outside,
		"float_mode=real treats float64 as mathematical reals (no rounding/overflow/NaN); float_mode=fp is bit-precise IEEE-754",
		"paths that end in fp-exception (division by zero, sqrt of a negative) or assume-false are outside the claim",
		"one deterministic goroutine schedule per path (cooperative round-robin); map iteration in insertion order unless a harness asks for nondeterministic order",
		"package initialisers of the module (and of image, image/color) run once concretely; other initialisers outside the module are skipped",
		"solver: z3 5.1.0 (z3-new -in, persistent, push/pop), except harnesses whose spec says solver=z3 (z3 4.8.12, /usr/bin/z3: several times faster on the bit-precise FP add/mul queries of those harnesses); any (error line or unknown answer makes the run inconclusive (exit 3), never a pass",
	)
	for _, s := range stubs {
		assumptions = append(assumptions, "model/stub used: "+s)
	}
	if cuts, _ := loadCuts(verif); len(cuts) > 0 {
		for _, c := range cuts {
			assumptions = append(assumptions, fmt.Sprintf("source cut applied to the current %s on every run (symbolic run and native replay): %q -> %q: %s", c.File, c.Old, c.New, c.Why))
		}
	}
	if states == 0 {
		states = 0
	}
	ev := evidence{PropertyID: prop, Tier: tier, Seed: seed, Level: "model_checking", WallS: round3(time.Since(t0).Seconds()), Violations: violations,
		Assumptions: assumptions,
		Coverage: map[string]interface{}{
			"states": states, "transitions": transitions, "traces_validated_against_impl": validated, "witness_traces_tried": witnessTried, "witness_traces_ok": witnessOK,
			"samples": samples, "exhaustive": false,
			"queries": queries, "unsat": unsat, "sat": sat, "unknown": unknownQ, "solver_s": round3(solverS),
			"assertions_discharged": asserts, "known_findings_hit": knownHits,
			"explanation": "states = feasible+infeasible paths explored symbolically (each path covers every input satisfying its path condition); transitions = SSA instructions executed symbolically; traces_validated_against_impl = input vectors replayed against the natively compiled code: the reach witness of each passing harness instance (a model of a path on which all assertions were proved; natively every assertion must hold on it too) plus every counterexample model. Outside the bound: " + spec.Outside,
			"problems": problems,
		}}
	evDir := envOr("VERIF_EVIDENCE_DIR", filepath.Join(verif, "evidence"))
	os.MkdirAll(evDir, 0755)
	data, _ := json.MarshalIndent(ev, "", " ")
	os.WriteFile(filepath.Join(evDir, prop+".json"), data, 0644)

	fmt.Printf("symgo: %s paths=%d queries=%d (unsat %d, sat %d, unknown %d) solver=%.1fs wall=%.1fs violations=%d known=%d problems=%d\n",
		prop, states, queries, unsat, sat, unknownQ, solverS, time.Since(t0).Seconds(), violations, knownHits, len(problems))
	if violations > 0 {
		return 1
	}
	if len(problems) > 0 {
		for _, p := range problems {
			fmt.Println("INCONCLUSIVE:", p)
		}
		return 3
	}
	return 0
}

func round3(f float64) float64 { return math.Round(f*1000) / 1000 }

func sanitize(s string) string {
	var sb strings.Builder
	for _, r := range s {
		if r >= 'a' && r <= 'z' || r >= 'A' && r <= 'Z' || r >= '0' && r <= '9' || r == '_' || r == '-' || r == '=' {
			sb.WriteRune(r)
		} else {
			sb.WriteByte('_')
		}
	}
	return sb.String()
}

func cmdReplay(repo, verif, path string) int {
	data, err := os.ReadFile(path)
	if err != nil {
		fmt.Fprintln(os.Stderr, err)
		return 3
	}
	var rf replayFileOut
	if err := json.Unmarshal(data, &rf); err != nil {
		fmt.Fprintln(os.Stderr, err)
		return 3
	}
	eng := &Engine{repo: repo, verif: verif}
	ov, files, err := buildOverlay(repo, verif)
	if err != nil {
		fmt.Fprintln(os.Stderr, err)
		return 3
	}
	eng.overlay, eng.overlayFiles = ov, files
	overlayJSON, err := writeNativeOverlay(eng, filepath.Join(envOr("VERIF_OUT", filepath.Join(verif, "out")), "native"))
	if err != nil {
		fmt.Fprintln(os.Stderr, err)
		return 3
	}
	gmp := ""
	for _, in := range rf.Inputs {
		if in.Label == "numcpu" {
			gmp = in.Value
		}
	}
	result, out := nativeReplay(repo, overlayJSON, rf.Pkg, path, gmp, 60*time.Second)
	fmt.Println(out)
	fmt.Println("native replay result:", result)
	f := Finding{Kind: rf.Kind, Label: rf.Label}
	if reproduced(&f, result) {
		fmt.Printf("VIOLATION property=%s replay=%s\n", rf.Property, path)
		return 1
	}
	return 0
}
