package main

// Machine: one path execution context (per worker), path conditions,
// decisions, nondeterministic inputs, assertions.

import (
	"fmt"
	"go/types"
	"math"
	"os"
	"strings"
	"sync"
	"time"

	"golang.org/x/tools/go/ssa"
)

type engineFault struct{ msg string }

func (e engineFault) Error() string { return "symgo engine fault: " + e.msg }

type PathStatus int

const (
	StOK PathStatus = iota
	StInfeasible
	StAssumeFalse
	StFPExc
	StUnwind
	StUnsupported
	StDeadlock
	StPanic      // target panic escaped the harness
	StViolation  // assertion failed (model available)
	StUnknown    // solver unknown on an assertion
	StFault
)

func (s PathStatus) String() string {
	return [...]string{"ok", "infeasible", "assume-false", "fp-exception", "unwind", "unsupported", "deadlock", "panic", "violation", "unknown", "fault"}[s]
}

type pathEnd struct {
	status PathStatus
	msg    string
}

type killGoroutine struct{}

type InputRec struct {
	Label string `json:"label"`
	Kind  string `json:"kind"` // bool, int<k>, f64, f32, choice
	term  *Term
	Value string `json:"value"` // filled from the model / decision
	// for memoised (uninterpreted-function) answers: the argument values in the
	// model, so that the native replay can look the answer up by argument
	// instead of by call order
	argTerms []*Term
	Args     []string `json:"args,omitempty"`
}

// fillModel reads the model values of the inputs (and of memo arguments).
func fillModel(solver *Solver, inputs []InputRec) []InputRec {
	var vars []*Term
	seen := map[*Term]bool{}
	add := func(t *Term) {
		if t != nil && !t.isLit && !seen[t] {
			seen[t] = true
			vars = append(vars, t)
		}
	}
	for _, in := range inputs {
		add(in.term)
		for _, a := range in.argTerms {
			add(a)
		}
	}
	vals := solver.Values(vars)
	out := make([]InputRec, len(inputs))
	copy(out, inputs)
	for i := range out {
		if out[i].term != nil {
			out[i].Value = vals[out[i].term.ref()]
		}
		if len(out[i].argTerms) > 0 {
			out[i].Args = make([]string, len(out[i].argTerms))
			for j, a := range out[i].argTerms {
				if a.isLit {
					out[i].Args[j] = a.op
				} else {
					out[i].Args[j] = vals[a.ref()]
				}
			}
		}
	}
	return out
}

type Finding struct {
	Harness  string            `json:"harness"`
	Instance string            `json:"instance"`
	Label    string            `json:"label"`
	Kind     string            `json:"kind"` // assert, panic, nontermination, deadlock
	Msg      string            `json:"msg"`
	Inputs   []InputRec        `json:"inputs"`
	Params   map[string]int    `json:"params"`
	Stack    []string          `json:"stack"`
	Decisions []int            `json:"decisions"`
}

type Machine struct {
	eng    *Engine
	tt     *TermTable
	solver *Solver
	mode   FloatMode
	h      *HarnessRun

	// per-path state
	prefix    []int
	decisions []int
	pending   [][]int // alternatives discovered on this path
	pc        []*Term
	inputs    []InputRec
	nsym      int
	steps     int64
	stepLimit int64
	reached   map[string]bool
	observed  []string
	memo      map[string][]memoEntry
	guards    int
	fpexc     int
	findings  []Finding
	status    PathStatus
	statusMsg string
	asserts   int
	nondetMapFns map[string]bool
	panicOK   bool
	curFrame  *frame

	// scheduler
	sched *scheduler
	wg         map[*value]*int
	onceDone   map[*value]bool
	atomicVals map[*value]value
	funcsSeen  map[*ssa.Function]bool
	events     []event
	recording  bool
	intrCache  map[*ssa.Function]intrinsic
	noFloatLift bool
	outstanding []*asyncJob
	unknownLabels []string
	normBuf    []value
	lastRand   value
	absDone    map[*Term]bool
	absProducts map[uint64][]absProduct
	exploreSched bool
	accesses   []accessEvent
	schedPoints int
	randCount  int
	tokens     map[string]value
	errCause   map[*value]iface

	// stats (accumulated across paths)
	instrs int64
}

type memoEntry struct {
	args []*Term
	ans  *Term
	vals []value
}

func (m *Machine) resetPath(prefix []int) {
	m.prefix = prefix
	m.decisions = m.decisions[:0]
	m.pending = nil
	m.pc = m.pc[:0]
	m.inputs = nil
	m.nsym = 0
	m.steps = 0
	m.reached = map[string]bool{}
	m.observed = nil
	m.memo = map[string][]memoEntry{}
	m.findings = nil
	m.status = StOK
	m.statusMsg = ""
	m.nondetMapFns = map[string]bool{}
	m.panicOK = false
	m.curFrame = nil
	m.normBuf = nil
	m.absDone = nil
	m.absProducts = nil
	m.exploreSched = false
	m.accesses = nil
	m.schedPoints = 0
	m.randCount = 0
	m.tokens = nil
	m.errCause = nil
}

// addPC asserts t on the current path.
func (m *Machine) addPC(t *Term) {
	if t.isTrue() {
		return
	}
	m.pc = append(m.pc, t)
	m.solver.Assert(t)
}

// decide returns the next decision (among n alternatives). feas(i) gives the
// constraint of alternative i (nil = unconstrained).
func (m *Machine) decide(n int, cons func(i int) *Term) int {
	pos := len(m.decisions)
	if pos < len(m.prefix) {
		d := m.prefix[pos]
		m.decisions = append(m.decisions, d)
		if cons != nil {
			if c := cons(d); c != nil {
				m.addPC(c)
			}
		}
		return d
	}
	if len(m.decisions) > m.h.maxDecisions {
		panic(pathEnd{status: StUnwind, msg: fmt.Sprintf("more than %d decisions on one path", m.h.maxDecisions)})
	}
	first := -1
	for i := 0; i < n; i++ {
		feasible := true
		if cons != nil {
			if c := cons(i); c != nil {
				if c.isFalse() {
					feasible = false
				} else if !c.isTrue() {
					r := m.solver.CheckWith(c)
					feasible = r != Unsat
				}
			}
		}
		if !feasible {
			continue
		}
		if first < 0 {
			first = i
		} else {
			alt := make([]int, pos+1)
			copy(alt, m.decisions)
			alt[pos] = i
			m.pending = append(m.pending, alt)
		}
	}
	if first < 0 {
		panic(pathEnd{status: StInfeasible, msg: "no feasible alternative"})
	}
	m.decisions = append(m.decisions, first)
	if cons != nil {
		if c := cons(first); c != nil {
			m.addPC(c)
		}
	}
	return first
}

// branch forks on a symbolic condition; returns the side taken.
func (m *Machine) branch(c *Term) bool {
	if c.isTrue() {
		return true
	}
	if c.isFalse() {
		return false
	}
	nc := m.tt.Not(c)
	d := m.decide(2, func(i int) *Term {
		if i == 0 {
			return c
		}
		return nc
	})
	return d == 0
}

// chooseFree: unconstrained n-way choice.
func (m *Machine) chooseFree(n int) int {
	return m.decide(n, nil)
}

// guard assumes c (an implicit precondition such as a non-zero divisor);
// if c cannot hold the path ends as fp-exception.
func (m *Machine) guard(c *Term, what string) {
	if c.isTrue() {
		return
	}
	if c.isFalse() {
		panic(pathEnd{status: StFPExc, msg: what})
	}
	pos := len(m.decisions)
	if pos >= len(m.prefix) {
		if m.h.Params["strictFP"] == 1 {
			// harness option: a reachable division by zero / sqrt of a negative
			// number is a violation (the result would be NaN or Inf), not an
			// assumed-away precondition
			m.solver.Push()
			m.solver.Assert(m.tt.Not(c))
			if m.solver.Check() == Sat {
				m.recordViolation("no division by zero or square root of a negative number", "assert", what+" is reachable", true)
			}
			m.solver.Pop()
		}
		if m.solver.CheckWith(c) == Unsat {
			panic(pathEnd{status: StFPExc, msg: what})
		}
	}
	m.guards++
	m.addPC(c)
}

func (m *Machine) freshName(label string) string {
	m.nsym++
	var sb strings.Builder
	for _, r := range label {
		if r >= 'a' && r <= 'z' || r >= 'A' && r <= 'Z' || r >= '0' && r <= '9' || r == '_' {
			sb.WriteRune(r)
		} else {
			sb.WriteByte('_')
		}
	}
	return fmt.Sprintf("v%d_%s", m.nsym, sb.String())
}

func (m *Machine) newInput(label, kind string, s Sort) *Term {
	// the sort is part of the name: declarations are global in the solver
	// process and the k-th input of two paths may have different sorts
	tag := map[SortKind]string{SBool: "b", SBV: "i", SFP: "f", SReal: "r", SInt: "n"}[s.K]
	if s.K == SBV || s.K == SFP {
		tag += fmt.Sprint(s.Bits)
	}
	t := m.tt.Var(m.freshName(label)+"_"+tag, s)
	m.inputs = append(m.inputs, InputRec{Label: label, Kind: kind, term: t})
	return t
}

// internal fresh symbol (not part of the replay vector)
func (m *Machine) freshInternal(prefix string, key *Term, s Sort) *Term {
	return m.tt.Var(fmt.Sprintf("%s!%d", prefix, key.id), s)
}

func (m *Machine) modelInputs() []InputRec {
	return fillModel(m.solver, m.inputs)
}

func (m *Machine) stack() []string {
	var res []string
	for fr := m.curFrame; fr != nil; fr = fr.caller {
		pos := ""
		if fr.curInstr != nil {
			p := m.eng.prog.Fset.Position(fr.curInstr.Pos())
			if p.IsValid() {
				pos = fmt.Sprintf(" %s:%d", shortPath(p.Filename), p.Line)
			}
		}
		res = append(res, fr.fn.String()+pos)
		if len(res) > 30 {
			break
		}
	}
	return res
}

func shortPath(p string) string {
	return strings.TrimPrefix(p, "/repo/")
}

// assertCond implements vp.Assert.
func (m *Machine) assertCond(c value, label string) {
	m.asserts++
	switch c := c.(type) {
	case bool:
		if c {
			return
		}
		// concrete failure: need a model of the path condition
		r := m.solver.Check()
		if r == Unsat {
			panic(pathEnd{status: StInfeasible, msg: "path infeasible at assert"})
		}
		m.recordViolation(label, "assert", "assertion is false on this path", r == Sat)
		panic(pathEnd{status: StViolation, msg: label})
	case symBool:
		neg := m.tt.Not(c.t)
		if m.h.pool != nil {
			m.submitAsync(neg, label)
			return
		}
		m.solver.Push()
		m.solver.Assert(neg)
		r := m.solver.Check()
		switch r {
		case Unsat:
			m.solver.Pop()
			if m.h.assumeProven {
				m.addPC(c.t)
			}
			return
		case Sat:
			m.recordViolation(label, "assert", "assertion can be false", true)
			m.solver.Pop()
			panic(pathEnd{status: StViolation, msg: label})
		default:
			m.solver.Pop()
			panic(pathEnd{status: StUnknown, msg: "solver unknown on assertion " + label})
		}
	}
	panic(engineFault{fmt.Sprintf("assert of %T", c)})
}

func (m *Machine) recordViolation(label, kind, msg string, haveModel bool) {
	f := Finding{Harness: m.h.Name, Instance: m.h.Instance, Label: label, Kind: kind, Msg: msg,
		Params: m.h.Params, Stack: m.stack(), Decisions: append([]int(nil), m.decisions...)}
	if haveModel {
		f.Inputs = m.modelInputs()
	} else {
		f.Inputs = append([]InputRec(nil), m.inputs...)
	}
	m.findings = append(m.findings, f)
}

func (m *Machine) assume(c value) {
	switch c := c.(type) {
	case bool:
		if !c {
			panic(pathEnd{status: StAssumeFalse})
		}
	case symBool:
		if len(m.decisions) >= len(m.prefix) {
			if m.solver.CheckWith(c.t) == Unsat {
				panic(pathEnd{status: StAssumeFalse})
			}
		}
		m.addPC(c.t)
	default:
		panic(engineFault{fmt.Sprintf("assume of %T", c)})
	}
}

// ---- float helpers for intrinsics ----

func (m *Machine) fIte(c *Term, a, b value, bits int) value {
	if c.isTrue() {
		return a
	}
	if c.isFalse() {
		return b
	}
	return symFloat{m.tt.Ite(c, m.floatTerm(a), m.floatTerm(b)), bits}
}

func isInfVal(x value, sign int) bool {
	f, ok := concFloat(x)
	return ok && math.IsInf(f, sign)
}

var debugTrace = os.Getenv("SYMGO_TRACE") != ""

// typeOfKind maps a kind to its types.Type
func typOf(k types.BasicKind) types.Type { return types.Typ[k] }

var _ = ssa.NaiveForm

type event struct {
	kind string
	obj  *value
	val  value
	gid  int
}

func (m *Machine) event(kind string, obj *value, val value) {
	if !m.recording {
		return
	}
	gid := 0
	if m.sched != nil && m.sched.cur != nil {
		gid = m.sched.cur.id
	}
	m.events = append(m.events, event{kind, obj, val, gid})
}

// ---- asynchronous assertion checking ----

type asyncJob struct {
	tt      *TermTable
	pc      []*Term
	neg     *Term
	finding Finding
	inputs  []InputRec
	done    chan asyncResult
}

type asyncResult struct {
	res    SatResult
	inputs []InputRec
}

type asyncPool struct {
	jobs chan *asyncJob
	wg   sync.WaitGroup
	mu   sync.Mutex
	queries, nsat, nunsat, nunknown int
	time time.Duration
	nlsatFirst bool
}

func newAsyncPool(n int, bin string, timeoutMS int, nra bool) *asyncPool {
	p := &asyncPool{jobs: make(chan *asyncJob, 4096)}
	for i := 0; i < n; i++ {
		p.wg.Add(1)
		go func() {
			defer p.wg.Done()
			var solver *Solver
			defer func() {
				if solver != nil {
					p.mu.Lock()
					p.queries += solver.Queries
					p.nsat += solver.NSat
					p.nunsat += solver.NUnsat
					p.nunknown += solver.NUnknown
					p.time += solver.Time
					p.mu.Unlock()
					solver.Close()
				}
			}()
			for job := range p.jobs {
				if solver == nil {
					solver = NewSolver(bin, timeoutMS)
					solver.nra = nra
					solver.nlsatFirst = p.nlsatFirst
				}
				job.done <- runAsyncJob(solver, job)
				if solver.sinceRestart > 200 {
					solver.Restart()
				}
			}
		}()
	}
	return p
}

func runAsyncJob(solver *Solver, job *asyncJob) (out asyncResult) {
	defer func() {
		if r := recover(); r != nil {
			out = asyncResult{res: Unknown}
		}
	}()
	if solver.owner != job.tt {
		solver.Reset()
		solver.owner = job.tt
	}
	solver.PopAll()
	solver.Push()
	for _, t := range job.pc {
		solver.Assert(t)
	}
	solver.Assert(job.neg)
	r := solver.Check()
	if r == Unknown {
		// one retry with three times the budget (most queries are fast, so
		// this is rare; it makes the verdict robust against a loaded machine)
		old := solver.timeoutMS
		solver.timeoutMS = old * 3
		r = solver.Check()
		solver.timeoutMS = old
	}
	out.res = r
	if r == Sat {
		out.inputs = fillModel(solver, job.inputs)
	}
	solver.PopAll()
	return out
}

func (p *asyncPool) close() {
	close(p.jobs)
	p.wg.Wait()
}

func (m *Machine) submitAsync(neg *Term, label string) {
	job := &asyncJob{
		tt:     m.tt,
		pc:     append([]*Term(nil), m.pc...),
		neg:    neg,
		inputs: append([]InputRec(nil), m.inputs...),
		done:   make(chan asyncResult, 1),
		finding: Finding{Harness: m.h.Name, Instance: m.h.Instance, Label: label, Kind: "assert", Msg: "assertion can be false",
			Params: m.h.Params, Stack: m.stack(), Decisions: append([]int(nil), m.decisions...)},
	}
	m.outstanding = append(m.outstanding, job)
	m.h.pool.jobs <- job
}

// collectAsync waits for the path's outstanding assertion jobs.
func (m *Machine) collectAsync() (violations int, unknown int) {
	for _, job := range m.outstanding {
		r := <-job.done
		switch r.res {
		case Sat:
			f := job.finding
			f.Inputs = r.inputs
			m.findings = append(m.findings, f)
			violations++
		case Unknown:
			unknown++
			m.unknownLabels = append(m.unknownLabels, job.finding.Label)
		}
	}
	m.outstanding = nil
	return
}
