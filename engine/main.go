package main

// symgo — bounded symbolic execution of go/ssa + z3 for the model3d checks.
//
//   symgo check <PROP> [--tier quick|thorough]
//   symgo run <pkgdir> <Harness> [--mode fp|real] [--param k=v ...]
//   symgo replay <replay.json>

import (
	"encoding/json"
	"flag"
	"fmt"
	"os"
	"path/filepath"
	"strconv"
	"strings"
)

type HarnessSpec struct {
	Fn        string           `json:"fn"`
	Pkg       string           `json:"pkg"` // directory under /repo
	Mode      string           `json:"mode"`
	Quick     []map[string]int `json:"quick"`
	Thorough  []map[string]int `json:"thorough"`
	TimeoutMS int              `json:"timeout_ms"`
	StepLimit int64            `json:"step_limit"`
	MaxPaths  int              `json:"max_paths"`
	MaxWallS  int              `json:"max_wall_s"`
	NoIfConv  bool             `json:"no_ifconv"`
	MaxConcretize int          `json:"max_concretize"`
	ThoroughOnly bool          `json:"thorough_only"`
	Solver    string           `json:"solver"` // z3-new (default) or z3 (4.8.12, much faster on some FP queries)
	What      string           `json:"what"`
}

type PropSpec struct {
	ID        string        `json:"id"`
	Outside   string        `json:"outside"`
	Assumptions []string    `json:"assumptions"`
	Harnesses []HarnessSpec `json:"harnesses"`
}

func envOr(k, d string) string {
	if v := os.Getenv(k); v != "" {
		return v
	}
	return d
}

func main() {
	if len(os.Args) < 2 {
		fmt.Fprintln(os.Stderr, "usage: symgo check|run|replay ...")
		os.Exit(2)
	}
	repo := envOr("VERIF_REPO", "/repo")
	verif := envOr("VERIF_DIR", "/verif")
	switch os.Args[1] {
	case "check":
		fs := flag.NewFlagSet("check", flag.ExitOnError)
		tier := fs.String("tier", envOr("VERIF_TIER", "quick"), "quick|thorough")
		only := fs.String("only", "", "run only harnesses whose name contains this")
		replay := fs.String("replay", "", "replay a counterexample file natively")
		if len(os.Args) < 3 {
			fmt.Fprintln(os.Stderr, "usage: symgo check <PROP> [--tier t]")
			os.Exit(2)
		}
		prop := os.Args[2]
		fs.Parse(os.Args[3:])
		if *replay != "" {
			os.Exit(cmdReplay(repo, verif, *replay))
		}
		os.Exit(cmdCheck(repo, verif, prop, *tier, *only))
	case "run":
		fs := flag.NewFlagSet("run", flag.ExitOnError)
		mode := fs.String("mode", "fp", "fp|real")
		workers := fs.Int("workers", 8, "workers")
		timeout := fs.Int("timeout", 20000, "solver timeout ms")
		noif := fs.Bool("noifconv", false, "disable if-conversion")
		var params multiFlag
		fs.Var(&params, "param", "k=v")
		if len(os.Args) < 4 {
			fmt.Fprintln(os.Stderr, "usage: symgo run <pkgdir> <Harness> [flags]")
			os.Exit(2)
		}
		pkgdir, name := os.Args[2], os.Args[3]
		fs.Parse(os.Args[4:])
		os.Exit(cmdRun(repo, verif, pkgdir, name, *mode, params, *workers, *timeout, *noif))
	case "replay":
		if len(os.Args) < 3 {
			os.Exit(2)
		}
		os.Exit(cmdReplay(repo, verif, os.Args[2]))
	default:
		fmt.Fprintln(os.Stderr, "unknown command", os.Args[1])
		os.Exit(2)
	}
}

type multiFlag []string

func (m *multiFlag) String() string     { return strings.Join(*m, ",") }
func (m *multiFlag) Set(s string) error { *m = append(*m, s); return nil }

func parseMode(s string) FloatMode {
	if s == "real" {
		return ModeReal
	}
	return ModeFP
}

func cmdRun(repo, verif, pkgdir, name, mode string, params []string, workers, timeout int, noif bool) int {
	eng, err := NewEngine(repo, verif, []string{pkgdir})
	if err != nil {
		fmt.Fprintln(os.Stderr, "load:", err)
		return 3
	}
	if err := eng.runInits(); err != nil {
		fmt.Fprintln(os.Stderr, err)
		return 3
	}
	p := map[string]int{}
	for _, kv := range params {
		parts := strings.SplitN(kv, "=", 2)
		v, _ := strconv.Atoi(parts[1])
		p[parts[0]] = v
	}
	h := &HarnessRun{Name: name, Pkg: modulePath + "/" + pkgdir, Mode: parseMode(mode), Params: p, workers: workers, timeoutMS: timeout, noIfConv: noif}
	h.Instance = instanceName(p)
	eng.Explore(h)
	out, _ := json.MarshalIndent(h.Result, "", " ")
	fmt.Println(string(out))
	for _, f := range h.Result.Findings {
		fj, _ := json.MarshalIndent(f, "", " ")
		fmt.Println("FINDING:", string(fj))
	}
	fmt.Printf("load %.1fs\n", eng.loadTime.Seconds())
	if len(h.Result.Findings) > 0 {
		return 1
	}
	if len(h.Result.Problems) > 0 {
		return 3
	}
	return 0
}

func instanceName(p map[string]int) string {
	var keys []string
	for k := range p {
		keys = append(keys, k)
	}
	sortStrings(keys)
	var parts []string
	for _, k := range keys {
		parts = append(parts, fmt.Sprintf("%s=%d", k, p[k]))
	}
	return strings.Join(parts, ",")
}

func sortStrings(a []string) {
	for i := 1; i < len(a); i++ {
		for j := i; j > 0 && a[j] < a[j-1]; j-- {
			a[j], a[j-1] = a[j-1], a[j]
		}
	}
}

func loadProps(verif string) (map[string]*PropSpec, error) {
	data, err := os.ReadFile(filepath.Join(verif, "props.json"))
	if err != nil {
		return nil, err
	}
	var list []*PropSpec
	if err := json.Unmarshal(data, &list); err != nil {
		return nil, err
	}
	res := map[string]*PropSpec{}
	for _, p := range list {
		res[p.ID] = p
	}
	return res, nil
}
