package main

// SMT term DAG with hash-consing (one table per worker).

import (
	"fmt"
	"math"
	"math/big"
	"strconv"
	"strings"
)

type SortKind int

const (
	SBool SortKind = iota
	SBV
	SFP
	SReal
	SInt
)

type Sort struct {
	K    SortKind
	Bits int // BV width; FP: 64 or 32
}

func (s Sort) String() string {
	switch s.K {
	case SBool:
		return "Bool"
	case SBV:
		return fmt.Sprintf("(_ BitVec %d)", s.Bits)
	case SFP:
		if s.Bits == 32 {
			return "(_ FloatingPoint 8 24)"
		}
		return "(_ FloatingPoint 11 53)"
	case SReal:
		return "Real"
	case SInt:
		return "Int"
	}
	return "?"
}

var (
	sortBool = Sort{K: SBool}
	sortReal = Sort{K: SReal}
	sortInt  = Sort{K: SInt}
	sortFP64 = Sort{K: SFP, Bits: 64}
	sortFP32 = Sort{K: SFP, Bits: 32}
)

func sortBV(n int) Sort { return Sort{K: SBV, Bits: n} }

type Term struct {
	id    int
	op    string // operator, or literal text / variable name for leaves
	args  []*Term
	sort  Sort
	isVar bool
	isLit bool
	// for literal folding
	bval  bool
	nodes int // DAG size estimate
}

type TermTable struct {
	tab  map[string]*Term
	next int
	vars []*Term
}

func NewTermTable() *TermTable {
	return &TermTable{tab: map[string]*Term{}}
}

func (tt *TermTable) intern(key string, mk func() *Term) *Term {
	if t, ok := tt.tab[key]; ok {
		return t
	}
	t := mk()
	tt.next++
	t.id = tt.next
	tt.tab[key] = t
	return t
}

func (tt *TermTable) Var(name string, s Sort) *Term {
	key := "v:" + name + ":" + s.String()
	return tt.intern(key, func() *Term {
		t := &Term{op: name, sort: s, isVar: true}
		tt.vars = append(tt.vars, t)
		return t
	})
}

func (tt *TermTable) Lit(text string, s Sort) *Term {
	key := "l:" + text
	return tt.intern(key, func() *Term {
		return &Term{op: text, sort: s, isLit: true}
	})
}

func (tt *TermTable) True() *Term {
	t := tt.Lit("true", sortBool)
	t.bval = true
	return t
}
func (tt *TermTable) False() *Term { return tt.Lit("false", sortBool) }

func (tt *TermTable) BoolLit(b bool) *Term {
	if b {
		return tt.True()
	}
	return tt.False()
}

func (tt *TermTable) BVLit(v uint64, bits int) *Term {
	if bits < 64 {
		v &= (uint64(1) << uint(bits)) - 1
	}
	var text string
	if bits%4 == 0 {
		text = fmt.Sprintf("#x%0*x", bits/4, v)
	} else {
		text = fmt.Sprintf("#b%0*b", bits, v)
	}
	return tt.Lit(text, sortBV(bits))
}

func (tt *TermTable) FP64Lit(f float64) *Term {
	b := math.Float64bits(f)
	text := fmt.Sprintf("(fp #b%01b #b%011b #b%052b)", b>>63, (b>>52)&0x7ff, b&((1<<52)-1))
	return tt.Lit(text, sortFP64)
}

func (tt *TermTable) FP32Lit(f float32) *Term {
	b := math.Float32bits(f)
	text := fmt.Sprintf("(fp #b%01b #b%08b #b%023b)", b>>31, (b>>23)&0xff, b&((1<<23)-1))
	return tt.Lit(text, sortFP32)
}

// RealLit returns the exact rational value of the double f.
func (tt *TermTable) RealLit(f float64) *Term {
	if math.IsInf(f, 0) || math.IsNaN(f) {
		panic(engineFault{"RealLit of non-finite value"})
	}
	r := new(big.Rat)
	r.SetFloat64(f)
	return tt.RatLit(r)
}

func (tt *TermTable) RatLit(r *big.Rat) *Term {
	neg := r.Sign() < 0
	a := new(big.Rat).Abs(r)
	var text string
	if a.IsInt() {
		text = a.Num().String() + ".0"
	} else {
		text = "(/ " + a.Num().String() + ".0 " + a.Denom().String() + ".0)"
	}
	if neg {
		text = "(- " + text + ")"
	}
	return tt.Lit(text, sortReal)
}

func (tt *TermTable) IntLit(v int64) *Term {
	if v < 0 {
		return tt.Lit("(- "+strconv.FormatInt(-v, 10)+")", sortInt)
	}
	return tt.Lit(strconv.FormatInt(v, 10), sortInt)
}

func (tt *TermTable) App(op string, s Sort, args ...*Term) *Term {
	// canonical operand order for commutative operators over the reals and
	// booleans, so that a*b and b*a are the same term (hash-consing then
	// identifies e.g. the two dot products n0.n1 and n1.n0)
	if len(args) == 2 && args[0].id > args[1].id {
		switch {
		case (op == "+" || op == "*") && s.K == SReal,
			op == "=" && args[0].sort.K != SFP,
			op == "and", op == "or":
			args = []*Term{args[1], args[0]}
		}
	}
	var sb strings.Builder
	sb.WriteString("a:")
	sb.WriteString(op)
	for _, a := range args {
		sb.WriteByte(' ')
		sb.WriteString(strconv.Itoa(a.id))
	}
	return tt.intern(sb.String(), func() *Term {
		n := 1
		for _, a := range args {
			n += a.nodes
		}
		return &Term{op: op, args: append([]*Term(nil), args...), sort: s, nodes: n}
	})
}

func (t *Term) isTrue() bool  { return t.isLit && t.op == "true" }
func (t *Term) isFalse() bool { return t.isLit && t.op == "false" }

// ---- boolean helpers with light simplification ----

func (tt *TermTable) Not(a *Term) *Term {
	if a.isTrue() {
		return tt.False()
	}
	if a.isFalse() {
		return tt.True()
	}
	if a.op == "not" && len(a.args) == 1 {
		return a.args[0]
	}
	return tt.App("not", sortBool, a)
}

func (tt *TermTable) And(a, b *Term) *Term {
	if a.isFalse() || b.isFalse() {
		return tt.False()
	}
	if a.isTrue() {
		return b
	}
	if b.isTrue() {
		return a
	}
	if a == b {
		return a
	}
	return tt.App("and", sortBool, a, b)
}

func (tt *TermTable) Or(a, b *Term) *Term {
	if a.isTrue() || b.isTrue() {
		return tt.True()
	}
	if a.isFalse() {
		return b
	}
	if b.isFalse() {
		return a
	}
	if a == b {
		return a
	}
	return tt.App("or", sortBool, a, b)
}

func (tt *TermTable) Implies(a, b *Term) *Term { return tt.Or(tt.Not(a), b) }

func (tt *TermTable) Ite(c, a, b *Term) *Term {
	if c.isTrue() {
		return a
	}
	if c.isFalse() {
		return b
	}
	if a == b {
		return a
	}
	if a.sort.K == SBool {
		if a.isTrue() && b.isFalse() {
			return c
		}
		if a.isFalse() && b.isTrue() {
			return tt.Not(c)
		}
	}
	return tt.App("ite", a.sort, c, a, b)
}

func (tt *TermTable) Eq(a, b *Term) *Term {
	if a == b {
		return tt.True()
	}
	if a.isLit && b.isLit && a.sort.K != SFP {
		// distinct interned literals of BV/Bool/Int sorts are distinct values;
		// reals may have several spellings only through RatLit which is canonical.
		return tt.False()
	}
	return tt.App("=", sortBool, a, b)
}

// smt2 returns the inline text of the term's head applied to named arguments.
func (t *Term) ref() string {
	if t.isVar || t.isLit {
		return t.op
	}
	return "t" + strconv.Itoa(t.id)
}

func (t *Term) body() string {
	var sb strings.Builder
	sb.WriteByte('(')
	sb.WriteString(t.op)
	for _, a := range t.args {
		sb.WriteByte(' ')
		sb.WriteString(a.ref())
	}
	sb.WriteByte(')')
	return sb.String()
}

// Inline renders the term fully expanded (debugging / small terms only).
func (t *Term) Inline(depth int) string {
	if t.isVar || t.isLit {
		return t.op
	}
	if depth <= 0 {
		return "…"
	}
	var sb strings.Builder
	sb.WriteByte('(')
	sb.WriteString(t.op)
	for _, a := range t.args {
		sb.WriteByte(' ')
		sb.WriteString(a.Inline(depth - 1))
	}
	sb.WriteByte(')')
	return sb.String()
}
