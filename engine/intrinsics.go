package main

// Intrinsics: the vp API, math, sort, sync, runtime, fmt/errors.
// Every entry here is part of the trusted/stated base of a check that uses it;
// the names used on a run are recorded in the evidence.

import (
	"fmt"
	"go/token"
	"go/types"
	"math"
	"strings"
)

const vpPath = "github.com/unixpickle/model3d/internal/vp"

type intrinsic func(m *Machine, fr *frame, args []value) value

var intrinsics map[string]intrinsic

func init() {
	intrinsics = map[string]intrinsic{}
	reg := func(name string, f intrinsic) { intrinsics[name] = f }
	used := func(name string, f intrinsic) intrinsic {
		return func(m *Machine, fr *frame, args []value) value {
			m.h.noteStub(name)
			return f(m, fr, args)
		}
	}
	vp := func(name string, f intrinsic) { reg(vpPath+"."+name, f) }

	// ---------------- vp ----------------
	vp("Symbolic", func(m *Machine, fr *frame, a []value) value { return true })
	vp("Bool", func(m *Machine, fr *frame, a []value) value {
		return symBool{m.newInput(a[0].(string), "bool", sortBool)}
	})
	mkInt := func(kind types.BasicKind) intrinsic {
		return func(m *Machine, fr *frame, a []value) value {
			bits, _ := kindBits(kind)
			return symInt{m.newInput(a[0].(string), fmt.Sprintf("int%d", bits), sortBV(bits)), kind}
		}
	}
	vp("Int64", mkInt(types.Int64))
	vp("Int32", mkInt(types.Int32))
	vp("Int16", mkInt(types.Int16))
	vp("Int8", mkInt(types.Int8))
	vp("Uint64", mkInt(types.Uint64))
	vp("Uint32", mkInt(types.Uint32))
	vp("Uint16", mkInt(types.Uint16))
	vp("Uint8", mkInt(types.Uint8))
	vp("AnyInt", mkInt(types.Int))
	vp("Int", func(m *Machine, fr *frame, a []value) value {
		lo, hi := a[1].(int), a[2].(int)
		t := m.newInput(a[0].(string), "int64", sortBV(64))
		m.addPC(m.tt.App("bvsge", sortBool, t, m.tt.BVLit(uint64(lo), 64)))
		m.addPC(m.tt.App("bvsle", sortBool, t, m.tt.BVLit(uint64(hi), 64)))
		return symInt{t, types.Int}
	})
	vp("Float64", func(m *Machine, fr *frame, a []value) value {
		t := m.newInput(a[0].(string), "f64", m.floatSort(64))
		if m.mode == ModeFP {
			m.addPC(m.tt.Not(m.tt.App("fp.isNaN", sortBool, t)))
			m.addPC(m.tt.Not(m.tt.App("fp.isInfinite", sortBool, t)))
		}
		return symFloat{t, 64}
	})
	vp("AnyFloat64", func(m *Machine, fr *frame, a []value) value {
		return symFloat{m.newInput(a[0].(string), "f64", m.floatSort(64)), 64}
	})
	vp("Float32", func(m *Machine, fr *frame, a []value) value {
		t := m.newInput(a[0].(string), "f32", m.floatSort(32))
		if m.mode == ModeFP {
			m.addPC(m.tt.Not(m.tt.App("fp.isNaN", sortBool, t)))
			m.addPC(m.tt.Not(m.tt.App("fp.isInfinite", sortBool, t)))
		}
		return symFloat{t, 32}
	})
	vp("AnyFloat32", func(m *Machine, fr *frame, a []value) value {
		return symFloat{m.newInput(a[0].(string), "f32", m.floatSort(32)), 32}
	})
	vp("Choice", func(m *Machine, fr *frame, a []value) value {
		n := a[1].(int)
		if n <= 0 {
			panic(pathEnd{status: StAssumeFalse})
		}
		d := 0
		if n > 1 {
			d = m.chooseFree(n)
		}
		m.inputs = append(m.inputs, InputRec{Label: a[0].(string), Kind: "choice", Value: fmt.Sprint(d)})
		return d
	})
	vp("Concrete", func(m *Machine, fr *frame, a []value) value {
		if si, ok := a[0].(symInt); ok {
			return int(m.concretize(si, "vp.Concrete"))
		}
		return a[0]
	})
	vp("Assume", func(m *Machine, fr *frame, a []value) value { m.assume(a[0]); return nil })
	vp("AssumeEq", func(m *Machine, fr *frame, a []value) value {
		m.assume(m.binop(token.EQL, nil, a[0], a[1]))
		return nil
	})
	vp("Assert", func(m *Machine, fr *frame, a []value) value {
		m.assertCond(a[0], a[1].(string))
		return nil
	})
	vp("AssertNear", func(m *Machine, fr *frame, a []value) value {
		// |a-b| <= tol*(1+|a|+|b|)
		x, y, tol, label := a[0], a[1], a[2], a[3].(string)
		d := m.mathAbs(m.binop(token.SUB, nil, x, y))
		scale := m.binop(token.ADD, nil, float64(1), m.binop(token.ADD, nil, m.mathAbs(x), m.mathAbs(y)))
		bound := m.binop(token.MUL, nil, tol, scale)
		m.assertCond(m.binop(token.LEQ, nil, d, bound), label)
		return nil
	})
	vp("Reach", func(m *Machine, fr *frame, a []value) value {
		m.reached[a[0].(string)] = true
		return nil
	})
	vp("Observe", func(m *Machine, fr *frame, a []value) value {
		m.observed = append(m.observed, a[0].(string)+"="+toString(a[1]))
		return nil
	})
	vp("And", func(m *Machine, fr *frame, a []value) value { return m.andV(a[0], a[1]) })
	vp("Or", func(m *Machine, fr *frame, a []value) value { return m.orV(a[0], a[1]) })
	vp("Not", func(m *Machine, fr *frame, a []value) value { return m.notV(a[0]) })
	vp("Implies", func(m *Machine, fr *frame, a []value) value { return m.orV(m.notV(a[0]), a[1]) })
	vp("All", func(m *Machine, fr *frame, a []value) value {
		var acc value = true
		for _, e := range a[0].([]value) {
			acc = m.andV(acc, e)
		}
		return acc
	})
	vp("Any", func(m *Machine, fr *frame, a []value) value {
		var acc value = false
		for _, e := range a[0].([]value) {
			acc = m.orV(acc, e)
		}
		return acc
	})
	vp("IteF", func(m *Machine, fr *frame, a []value) value {
		switch c := a[0].(type) {
		case bool:
			if c {
				return a[1]
			}
			return a[2]
		case symBool:
			return m.fIte(c.t, a[1], a[2], 64)
		}
		panic(engineFault{"IteF"})
	})
	vp("IteI", func(m *Machine, fr *frame, a []value) value {
		switch c := a[0].(type) {
		case bool:
			if c {
				return a[1]
			}
			return a[2]
		case symBool:
			r, ok := m.mergeValues(c.t, a[1], a[2])
			if !ok {
				panic(engineFault{"IteI merge"})
			}
			return r
		}
		panic(engineFault{"IteI"})
	})
	intrinsics[vpPath+".IteU8"] = intrinsics[vpPath+".IteI"]
	intrinsics[vpPath+".IteI8"] = intrinsics[vpPath+".IteI"]
	intrinsics[vpPath+".IteB"] = intrinsics[vpPath+".IteI"]
	vp("RealMode", func(m *Machine, fr *frame, a []value) value { return m.mode == ModeReal })
	vp("Param", func(m *Machine, fr *frame, a []value) value {
		v, ok := m.h.Params[a[0].(string)]
		if !ok {
			panic(engineFault{"harness parameter not configured: " + a[0].(string)})
		}
		return v
	})
	vp("MemoBool", func(m *Machine, fr *frame, a []value) value {
		return m.memoCall(a[0].(string), a[1].([]value), "bool")
	})
	vp("MemoFloat", func(m *Machine, fr *frame, a []value) value {
		return m.memoCall(a[0].(string), a[1].([]value), "f64")
	})
	vp("MemoInt", func(m *Machine, fr *frame, a []value) value {
		return m.memoCall(a[0].(string), a[1].([]value), "int64")
	})
	vp("NondetMapOrder", func(m *Machine, fr *frame, a []value) value {
		m.nondetMapFns[a[0].(string)] = true
		return nil
	})
	vp("StepLimit", func(m *Machine, fr *frame, a []value) value {
		m.stepLimit = m.steps + int64(a[0].(int))
		m.h.terminationChecked = true
		return nil
	})
	vp("StepLimitOff", func(m *Machine, fr *frame, a []value) value {
		m.stepLimit = m.h.stepLimit
		return nil
	})
	vp("ExploreSchedules", func(m *Machine, fr *frame, a []value) value {
		m.exploreSched = true
		m.h.noteStub("schedule exploration: preemption at every synchronisation operation, vector-clock happens-before analysis of plain heap accesses")
		return nil
	})
	vp("Fail", func(m *Machine, fr *frame, a []value) value {
		m.assertCond(false, a[0].(string))
		return nil
	})

	// ---------------- math ----------------
	reg("math.Abs", func(m *Machine, fr *frame, a []value) value { return m.mathAbs(a[0]) })
	reg("math.Min", func(m *Machine, fr *frame, a []value) value { return m.mathMinMax(a[0], a[1], true) })
	reg("math.Max", func(m *Machine, fr *frame, a []value) value { return m.mathMinMax(a[0], a[1], false) })
	reg("math.Sqrt", used("math.Sqrt", func(m *Machine, fr *frame, a []value) value { return m.mathSqrt(a[0]) }))
	reg("math.Floor", used("math.Floor", func(m *Machine, fr *frame, a []value) value { return m.mathRound(a[0], "floor") }))
	reg("math.Ceil", used("math.Ceil", func(m *Machine, fr *frame, a []value) value { return m.mathRound(a[0], "ceil") }))
	reg("math.Round", used("math.Round", func(m *Machine, fr *frame, a []value) value { return m.mathRound(a[0], "round") }))
	reg("math.Trunc", used("math.Trunc", func(m *Machine, fr *frame, a []value) value { return m.mathRound(a[0], "trunc") }))
	reg("math.Mod", used("math.Mod", func(m *Machine, fr *frame, a []value) value { return m.mathMod(a[0], a[1]) }))
	reg("math.IsNaN", func(m *Machine, fr *frame, a []value) value {
		if sf, ok := a[0].(symFloat); ok {
			if m.mode == ModeReal {
				return false
			}
			return m.mkBool(m.tt.App("fp.isNaN", sortBool, sf.t))
		}
		return math.IsNaN(a[0].(float64))
	})
	reg("math.IsInf", func(m *Machine, fr *frame, a []value) value {
		sign := a[1].(int)
		if sf, ok := a[0].(symFloat); ok {
			if m.mode == ModeReal {
				return false
			}
			inf := m.tt.App("fp.isInfinite", sortBool, sf.t)
			switch {
			case sign > 0:
				return m.mkBool(m.tt.And(inf, m.tt.App("fp.isPositive", sortBool, sf.t)))
			case sign < 0:
				return m.mkBool(m.tt.And(inf, m.tt.App("fp.isNegative", sortBool, sf.t)))
			}
			return m.mkBool(inf)
		}
		return math.IsInf(a[0].(float64), sign)
	})
	reg("math.Inf", func(m *Machine, fr *frame, a []value) value { return math.Inf(a[0].(int)) })
	reg("math.NaN", func(m *Machine, fr *frame, a []value) value { return math.NaN() })
	reg("math.Signbit", func(m *Machine, fr *frame, a []value) value {
		if sf, ok := a[0].(symFloat); ok {
			if m.mode == ModeReal {
				return m.mkBool(m.tt.App("<", sortBool, sf.t, m.tt.RealLit(0)))
			}
			return m.mkBool(m.tt.App("fp.isNegative", sortBool, sf.t))
		}
		return math.Signbit(a[0].(float64))
	})
	reg("math.Float64bits", func(m *Machine, fr *frame, a []value) value {
		if sf, ok := a[0].(symFloat); ok {
			if m.mode == ModeReal {
				panic(pathEnd{status: StUnsupported, msg: "Float64bits of a symbolic value in real mode"})
			}
			return symInt{m.tt.App("fp.to_ieee_bv", sortBV(64), sf.t), types.Uint64}
		}
		return math.Float64bits(a[0].(float64))
	})
	reg("math.Float64frombits", func(m *Machine, fr *frame, a []value) value {
		if si, ok := a[0].(symInt); ok {
			if m.mode == ModeReal {
				panic(pathEnd{status: StUnsupported, msg: "Float64frombits of a symbolic value in real mode"})
			}
			return symFloat{m.tt.App("(_ to_fp 11 53)", sortFP64, si.t), 64}
		}
		return math.Float64frombits(a[0].(uint64))
	})
	reg("math.Float32bits", func(m *Machine, fr *frame, a []value) value {
		if sf, ok := a[0].(symFloat); ok {
			if m.mode == ModeReal {
				panic(pathEnd{status: StUnsupported, msg: "Float32bits of a symbolic value in real mode"})
			}
			return symInt{m.tt.App("fp.to_ieee_bv", sortBV(32), sf.t), types.Uint32}
		}
		return math.Float32bits(a[0].(float32))
	})
	reg("math.Float32frombits", func(m *Machine, fr *frame, a []value) value {
		if si, ok := a[0].(symInt); ok {
			if m.mode == ModeReal {
				panic(pathEnd{status: StUnsupported, msg: "Float32frombits of a symbolic value in real mode"})
			}
			return symFloat{m.tt.App("(_ to_fp 8 24)", sortFP32, si.t), 32}
		}
		return math.Float32frombits(a[0].(uint32))
	})
	reg("math.Copysign", func(m *Machine, fr *frame, a []value) value {
		if !isSym(a[0]) && !isSym(a[1]) {
			return math.Copysign(a[0].(float64), a[1].(float64))
		}
		if m.mode != ModeReal {
			panic(pathEnd{status: StUnsupported, msg: "Copysign symbolic in fp mode"})
		}
		ax := m.mathAbs(a[0])
		neg := m.binop(token.LSS, nil, a[1], float64(0))
		nax := m.unopNeg(ax)
		switch c := neg.(type) {
		case bool:
			if c {
				return nax
			}
			return ax
		case symBool:
			return m.fIte(c.t, nax, ax, 64)
		}
		panic(engineFault{"copysign"})
	})
	reg("math.Pow", used("math.Pow", func(m *Machine, fr *frame, a []value) value {
		if !isSym(a[0]) && !isSym(a[1]) {
			return math.Pow(a[0].(float64), a[1].(float64))
		}
		if e, ok := a[1].(float64); ok && e == math.Trunc(e) && e >= 0 && e <= 16 && m.mode == ModeReal {
			var r value = float64(1)
			for i := 0; i < int(e); i++ {
				r = m.binop(token.MUL, nil, r, a[0])
			}
			return r
		}
		if e, ok := a[1].(float64); ok && (e == 0.5 || e == 0.25) && m.mode == ModeReal {
			// x^(1/2), x^(1/4) for x >= 0 (the guard makes a negative base a
			// domain error: Pow would give NaN)
			r := m.mathSqrt(a[0])
			if e == 0.25 {
				r = m.mathSqrt(r)
			}
			return r
		}
		panic(pathEnd{status: StUnsupported, msg: "math.Pow with symbolic operand"})
	}))
	reg("math.Sin", used("math.Sin/Cos", func(m *Machine, fr *frame, a []value) value { return m.mathSinCos(a[0], true) }))
	reg("math.Cos", used("math.Sin/Cos", func(m *Machine, fr *frame, a []value) value { return m.mathSinCos(a[0], false) }))
	reg("math.Acos", used("math.Acos(model: theta in [0,pi] with cos(theta)=x, sin(theta)=sqrt(1-x^2))", func(m *Machine, fr *frame, a []value) value {
		sf, ok := a[0].(symFloat)
		if !ok {
			return math.Acos(a[0].(float64))
		}
		if m.mode != ModeReal {
			panic(pathEnd{status: StUnsupported, msg: "math.Acos symbolic in fp mode"})
		}
		one, zero := m.tt.RealLit(1), m.tt.RealLit(0)
		m.guard(m.tt.And(m.tt.App(">=", sortBool, sf.t, m.tt.RealLit(-1)), m.tt.App("<=", sortBool, sf.t, one)), "acos outside [-1,1]")
		theta := m.freshInternal("acos", sf.t, sortReal)
		m.addPC(m.tt.App(">=", sortBool, theta, zero))
		m.addPC(m.tt.App("<=", sortBool, theta, m.tt.RealLit(math.Pi)))
		// sin/cos of theta are the variables mathSinCos would create for it
		sn := m.freshInternal("sin", theta, sortReal)
		cs := m.freshInternal("cos", theta, sortReal)
		m.addPC(m.tt.Eq(cs, sf.t))
		m.addPC(m.tt.App(">=", sortBool, sn, zero))
		m.addPC(m.tt.Eq(m.tt.App("+", sortReal, m.tt.App("*", sortReal, sn, sn), m.tt.App("*", sortReal, sf.t, sf.t)), one))
		return symFloat{theta, 64}
	}))
	native1 := map[string]func(float64) float64{
		"math.Tan": math.Tan, "math.Asin": math.Asin, "math.Atan": math.Atan,
		"math.Exp": math.Exp, "math.Log": math.Log, "math.Log2": math.Log2, "math.Log10": math.Log10, "math.Cbrt": math.Cbrt,
		"math.Sinh": math.Sinh, "math.Cosh": math.Cosh, "math.Tanh": math.Tanh, "math.Exp2": math.Exp2, "math.Log1p": math.Log1p,
	}
	for name, f := range native1 {
		name, f := name, f
		reg(name, func(m *Machine, fr *frame, a []value) value {
			if x, ok := a[0].(float64); ok {
				return f(x)
			}
			panic(pathEnd{status: StUnsupported, msg: name + " of a symbolic value"})
		})
	}
	native2 := map[string]func(float64, float64) float64{
		"math.Atan2": math.Atan2, "math.Hypot": math.Hypot, "math.Remainder": math.Remainder,
	}
	for name, f := range native2 {
		name, f := name, f
		reg(name, func(m *Machine, fr *frame, a []value) value {
			x, ok1 := a[0].(float64)
			y, ok2 := a[1].(float64)
			if ok1 && ok2 {
				return f(x, y)
			}
			if name == "math.Hypot" {
				s := m.binop(token.ADD, nil, m.binop(token.MUL, nil, a[0], a[0]), m.binop(token.MUL, nil, a[1], a[1]))
				return m.mathSqrt(s)
			}
			panic(pathEnd{status: StUnsupported, msg: name + " of a symbolic value"})
		})
	}
	reg("math.Sincos", func(m *Machine, fr *frame, a []value) value {
		return tuple{m.mathSinCos(a[0], true), m.mathSinCos(a[0], false)}
	})
	reg("math.Modf", func(m *Machine, fr *frame, a []value) value {
		if x, ok := a[0].(float64); ok {
			i, f := math.Modf(x)
			return tuple{i, f}
		}
		panic(pathEnd{status: StUnsupported, msg: "math.Modf of a symbolic value"})
	})

	// ---------------- sort ----------------
	reg("sort.Slice", used("sort.Slice(model: stable insertion sort calling the user's less)", func(m *Machine, fr *frame, a []value) value {
		sl := a[0].(iface).v.([]value)
		less := a[1]
		m.insertionSort(len(sl), func(i, j int) bool {
			return m.truth(m.call(fr, token.NoPos, less, []value{i, j}))
		}, func(i, j int) { sl[i], sl[j] = sl[j], sl[i] })
		return nil
	}))
	reg("sort.SliceStable", intrinsics["sort.Slice"])
	reg("sort.Float64s", used("sort.Float64s(model: insertion sort)", func(m *Machine, fr *frame, a []value) value {
		sl := a[0].([]value)
		m.insertionSort(len(sl), func(i, j int) bool {
			return m.truth(m.binop(token.LSS, nil, sl[i], sl[j]))
		}, func(i, j int) { sl[i], sl[j] = sl[j], sl[i] })
		return nil
	}))
	reg("sort.Ints", used("sort.Ints(model: insertion sort)", func(m *Machine, fr *frame, a []value) value {
		sl := a[0].([]value)
		m.insertionSort(len(sl), func(i, j int) bool {
			return m.truth(m.binop(token.LSS, nil, sl[i], sl[j]))
		}, func(i, j int) { sl[i], sl[j] = sl[j], sl[i] })
		return nil
	}))
	reg("sort.Strings", func(m *Machine, fr *frame, a []value) value {
		sl := a[0].([]value)
		m.insertionSort(len(sl), func(i, j int) bool { return sl[i].(string) < sl[j].(string) },
			func(i, j int) { sl[i], sl[j] = sl[j], sl[i] })
		return nil
	})
	reg("sort.Sort", used("sort.Sort(model: insertion sort over the interface)", func(m *Machine, fr *frame, a []value) value {
		data := a[0].(iface)
		meth := func(name string) value {
			ms := m.eng.prog.MethodSets.MethodSet(data.t)
			for i := 0; i < ms.Len(); i++ {
				if ms.At(i).Obj().Name() == name {
					return m.eng.prog.MethodValue(ms.At(i))
				}
			}
			panic(engineFault{"sort.Sort: no method " + name})
		}
		lenF, lessF, swapF := meth("Len"), meth("Less"), meth("Swap")
		n := m.call(fr, token.NoPos, lenF, []value{data.v}).(int)
		m.insertionSort(n, func(i, j int) bool {
			return m.truth(m.call(fr, token.NoPos, lessF, []value{data.v, i, j}))
		}, func(i, j int) { m.call(fr, token.NoPos, swapF, []value{data.v, i, j}) })
		return nil
	}))
	reg("sort.Stable", intrinsics["sort.Sort"])

	// ---------------- runtime ----------------
	reg("runtime.GOMAXPROCS", used("runtime.GOMAXPROCS(symbolic in [1,W])", func(m *Machine, fr *frame, a []value) value {
		return m.numCPU()
	}))
	reg("runtime.NumCPU", used("runtime.NumCPU(symbolic in [1,W])", func(m *Machine, fr *frame, a []value) value {
		return m.numCPU()
	}))
	reg("runtime.Gosched", func(m *Machine, fr *frame, a []value) value { return nil })
	reg("runtime.GC", func(m *Machine, fr *frame, a []value) value { return nil })

	// ---------------- sync ----------------
	lock := func(m *Machine, fr *frame, a []value) value {
		p := a[0].(*value)
		m.preempt()
		st := (*p).(structure)
		m.block("mutex lock", func() bool { return asInt64(st[0]) == 0 })
		st[0] = int32(1)
		m.record("lock", p, 0)
		return nil
	}
	unlock := func(m *Machine, fr *frame, a []value) value {
		p := a[0].(*value)
		st := (*p).(structure)
		st[0] = int32(0)
		m.record("unlock", p, 0)
		return nil
	}
	reg("(*sync.Mutex).Lock", lock)
	reg("(*sync.Mutex).Unlock", unlock)
	reg("(*sync.RWMutex).Lock", func(m *Machine, fr *frame, a []value) value {
		p := a[0].(*value)
		m.preempt()
		st := (*p).(structure)
		w := st[0].(structure)
		m.block("rwmutex lock", func() bool { return asInt64(w[0]) == 0 })
		w[0] = int32(1)
		m.record("lock", p, 0)
		return nil
	})
	reg("(*sync.RWMutex).Unlock", func(m *Machine, fr *frame, a []value) value {
		p := a[0].(*value)
		(*p).(structure)[0].(structure)[0] = int32(0)
		m.record("unlock", p, 0)
		return nil
	})
	reg("(*sync.RWMutex).RLock", intrinsics["(*sync.RWMutex).Lock"])
	reg("(*sync.RWMutex).RUnlock", intrinsics["(*sync.RWMutex).Unlock"])
	reg("(*sync.WaitGroup).Add", func(m *Machine, fr *frame, a []value) value {
		cnt := m.wgCounter(a[0].(*value))
		*cnt += a[1].(int)
		if *cnt < 0 {
			panic(targetPanic{v: "sync: negative WaitGroup counter"})
		}
		return nil
	})
	reg("(*sync.WaitGroup).Done", func(m *Machine, fr *frame, a []value) value {
		cnt := m.wgCounter(a[0].(*value))
		*cnt--
		if *cnt < 0 {
			panic(targetPanic{v: "sync: negative WaitGroup counter"})
		}
		m.record("wgdone", a[0].(*value), 0)
		return nil
	})
	reg("(*sync.WaitGroup).Wait", func(m *Machine, fr *frame, a []value) value {
		cnt := m.wgCounter(a[0].(*value))
		m.block("WaitGroup.Wait", func() bool { return *cnt == 0 })
		m.record("wgwait", a[0].(*value), 0)
		return nil
	})
	reg("(*sync.Once).Do", func(m *Machine, fr *frame, a []value) value {
		p := a[0].(*value)
		st := (*p).(structure)
		// first field is the done flag (struct or uint32 depending on Go version)
		key := p
		if m.onceDone == nil {
			m.onceDone = map[*value]bool{}
		}
		_ = st
		if !m.onceDone[key] {
			m.onceDone[key] = true
			m.call(fr, token.NoPos, a[1], nil)
		}
		return nil
	})
	reg("(*sync/atomic.Value).Load", func(m *Machine, fr *frame, a []value) value {
		p := a[0].(*value)
		m.preempt()
		m.record("aload", p, 0)
		// atomic.Value is struct{ v any }: the stored interface lives in field 0
		// so that overwriting the struct (x = atomic.Value{}) resets it.
		return (*p).(structure)[0]
	})
	reg("(*sync/atomic.Value).Store", func(m *Machine, fr *frame, a []value) value {
		p := a[0].(*value)
		m.preempt()
		m.record("astore", p, 0)
		if a[1].(iface).t == nil {
			panic(targetPanic{v: "sync/atomic: store of nil value into Value"})
		}
		(*p).(structure)[0] = a[1]
		return nil
	})

	// ---------------- fmt / errors / strings ----------------
	reg("fmt.Sprintf", func(m *Machine, fr *frame, a []value) value {
		return nativeSprintf(a[0].(string), a[1].([]value))
	})
	reg("fmt.Sprint", func(m *Machine, fr *frame, a []value) value {
		var parts []string
		for _, e := range a[0].([]value) {
			parts = append(parts, fmt.Sprint(toNative(e)))
		}
		return strings.Join(parts, " ")
	})
	reg("fmt.Sprintln", func(m *Machine, fr *frame, a []value) value {
		var parts []string
		for _, e := range a[0].([]value) {
			parts = append(parts, fmt.Sprint(toNative(e)))
		}
		return strings.Join(parts, " ") + "\n"
	})
	reg("fmt.Errorf", func(m *Machine, fr *frame, a []value) value {
		return m.newError(nativeSprintf(a[0].(string), a[1].([]value)))
	})
	for _, n := range []string{"fmt.Println", "fmt.Printf", "fmt.Print", "fmt.Fprintf", "fmt.Fprintln", "fmt.Fprint", "log.Println", "log.Printf", "log.Print"} {
		n := n
		reg(n, func(m *Machine, fr *frame, a []value) value {
			if strings.HasPrefix(n, "fmt.") {
				return tuple{0, iface{}}
			}
			return nil
		})
	}
	reg("errors.New", func(m *Machine, fr *frame, a []value) value { return m.newError(a[0].(string)) })
	reg("github.com/pkg/errors.New", func(m *Machine, fr *frame, a []value) value { return m.newError(a[0].(string)) })
	reg("github.com/pkg/errors.Errorf", func(m *Machine, fr *frame, a []value) value {
		return m.newError(nativeSprintf(a[0].(string), a[1].([]value)))
	})
	reg("github.com/pkg/errors.WithStack", func(m *Machine, fr *frame, a []value) value { return a[0] })

	registerIOIntrinsics(reg, used)
	registerStrIntrinsics(reg, used)
}

// ---------------------------------------------------------------------

func (m *Machine) unopNeg(x value) value {
	if isSym(x) {
		return m.unopArith(token.SUB, x)
	}
	switch x := x.(type) {
	case float64:
		return -x
	case float32:
		return -x
	}
	panic(engineFault{"unopNeg"})
}

func (m *Machine) mathAbs(x value) value {
	sf, ok := x.(symFloat)
	if !ok {
		switch x := x.(type) {
		case float64:
			return math.Abs(x)
		case float32:
			return float32(math.Abs(float64(x)))
		}
		panic(engineFault{fmt.Sprintf("Abs of %T", x)})
	}
	if m.mode == ModeReal {
		if sf.t.op == "-" && len(sf.t.args) == 1 {
			// |-(a)| = |a|
			return m.mathAbs(symFloat{sf.t.args[0], sf.bits})
		}
		neg := m.tt.App("<", sortBool, sf.t, m.tt.RealLit(0))
		return symFloat{m.tt.Ite(neg, m.tt.App("-", sortReal, sf.t), sf.t), sf.bits}
	}
	return symFloat{m.tt.App("fp.abs", m.floatSort(sf.bits), sf.t), sf.bits}
}

// mathMinMax implements math.Min / math.Max (NaN propagation and signed
// zeros are exact in fp mode; in real mode there are neither).
func (m *Machine) mathMinMax(x, y value, isMin bool) value {
	if !isSym(x) && !isSym(y) {
		xf, _ := concFloat(x)
		yf, _ := concFloat(y)
		var r float64
		if isMin {
			r = math.Min(xf, yf)
		} else {
			r = math.Max(xf, yf)
		}
		if _, is32 := x.(float32); is32 {
			return float32(r)
		}
		return r
	}
	bits := floatBitsOf(x)
	if bits == 0 {
		bits = floatBitsOf(y)
	}
	if m.mode == ModeReal {
		// infinities fold
		for k, v := range []value{x, y} {
			other := y
			if k == 1 {
				other = x
			}
			if f, ok := concFloat(v); ok {
				if math.IsNaN(f) {
					return v
				}
				if math.IsInf(f, 1) {
					if isMin {
						return other
					}
					return v
				}
				if math.IsInf(f, -1) {
					if isMin {
						return v
					}
					return other
				}
			}
		}
		a, b := m.floatTerm(x), m.floatTerm(y)
		if a == b {
			return x
		}
		if isMin {
			return symFloat{m.tt.Ite(m.tt.App("<=", sortBool, a, b), a, b), bits}
		}
		return symFloat{m.tt.Ite(m.tt.App(">=", sortBool, a, b), a, b), bits}
	}
	// fp mode: follow the Go implementation of math.Min/Max exactly.
	a, b := m.floatTerm(x), m.floatTerm(y)
	srt := m.floatSort(bits)
	tt := m.tt
	isNaN := func(t *Term) *Term { return tt.App("fp.isNaN", sortBool, t) }
	isInf := func(t *Term, neg bool) *Term {
		s := "fp.isPositive"
		if neg {
			s = "fp.isNegative"
		}
		return tt.And(tt.App("fp.isInfinite", sortBool, t), tt.App(s, sortBool, t))
	}
	isZero := func(t *Term) *Term { return tt.App("fp.isZero", sortBool, t) }
	isNeg := func(t *Term) *Term { return tt.App("fp.isNegative", sortBool, t) }
	var nan *Term
	if bits == 32 {
		nan = tt.Lit("(_ NaN 8 24)", srt)
	} else {
		nan = tt.Lit("(_ NaN 11 53)", srt)
	}
	var res *Term
	if isMin {
		// case IsInf(x,-1)||IsInf(y,-1): -Inf; NaN: NaN; x==0&&x==y: signbit(x)?x:y; x<y?x:y
		res = tt.Ite(tt.App("fp.lt", sortBool, a, b), a, b)
		res = tt.Ite(tt.And(isZero(a), isZero(b)), tt.Ite(isNeg(a), a, b), res)
		res = tt.Ite(tt.Or(isNaN(a), isNaN(b)), nan, res)
		res = tt.Ite(isInf(a, true), a, tt.Ite(isInf(b, true), b, res))
	} else {
		res = tt.Ite(tt.App("fp.gt", sortBool, a, b), a, b)
		res = tt.Ite(tt.And(isZero(a), isZero(b)), tt.Ite(isNeg(a), b, a), res)
		res = tt.Ite(tt.Or(isNaN(a), isNaN(b)), nan, res)
		res = tt.Ite(isInf(a, false), a, tt.Ite(isInf(b, false), b, res))
	}
	return symFloat{res, bits}
}

func (m *Machine) mathSqrt(x value) value {
	sf, ok := x.(symFloat)
	if !ok {
		switch x := x.(type) {
		case float64:
			return math.Sqrt(x)
		case float32:
			return float32(math.Sqrt(float64(x)))
		}
	}
	if m.mode == ModeFP {
		return symFloat{m.tt.App("fp.sqrt RNE", m.floatSort(sf.bits), sf.t), sf.bits}
	}
	zero := m.tt.RealLit(0)
	m.guard(m.tt.App(">=", sortBool, sf.t, zero), "sqrt of a negative value")
	// sqrt(a*a) patterns are kept generic: s >= 0, s*s = x
	s := m.freshInternal("sqrt", sf.t, sortReal)
	m.addPC(m.tt.App(">=", sortBool, s, zero))
	m.addPC(m.tt.Eq(m.tt.App("*", sortReal, s, s), sf.t))
	return symFloat{s, sf.bits}
}

func (m *Machine) mathRound(x value, how string) value {
	sf, ok := x.(symFloat)
	if !ok {
		f := x.(float64)
		switch how {
		case "floor":
			return math.Floor(f)
		case "ceil":
			return math.Ceil(f)
		case "round":
			return math.Round(f)
		default:
			return math.Trunc(f)
		}
	}
	if m.mode == ModeFP {
		rm := map[string]string{"floor": "RTN", "ceil": "RTP", "round": "RNA", "trunc": "RTZ"}[how]
		return symFloat{m.tt.App("fp.roundToIntegral "+rm, m.floatSort(sf.bits), sf.t), sf.bits}
	}
	tt := m.tt
	toInt := func(t *Term) *Term { return tt.App("to_real", sortReal, tt.App("to_int", sortInt, t)) }
	neg := func(t *Term) *Term { return tt.App("-", sortReal, t) }
	var r *Term
	switch how {
	case "floor":
		r = toInt(sf.t)
	case "ceil":
		r = neg(toInt(neg(sf.t)))
	case "trunc":
		r = tt.Ite(tt.App(">=", sortBool, sf.t, tt.RealLit(0)), toInt(sf.t), neg(toInt(neg(sf.t))))
	case "round": // half away from zero
		half := tt.RealLit(0.5)
		r = tt.Ite(tt.App(">=", sortBool, sf.t, tt.RealLit(0)),
			toInt(tt.App("+", sortReal, sf.t, half)),
			neg(toInt(tt.App("+", sortReal, neg(sf.t), half))))
	}
	return symFloat{r, sf.bits}
}

// mathMod: x - y*trunc(x/y) for symbolic x and concrete positive y (real mode).
func (m *Machine) mathMod(x, y value) value {
	if !isSym(x) && !isSym(y) {
		return math.Mod(x.(float64), y.(float64))
	}
	if m.mode != ModeReal {
		panic(pathEnd{status: StUnsupported, msg: "math.Mod symbolic in fp mode"})
	}
	q := m.binop(token.QUO, nil, x, y)
	tq := m.mathRound(q, "trunc")
	return m.binop(token.SUB, nil, x, m.binop(token.MUL, nil, y, tq))
}

// mathSinCos: (s,c) pair with s^2+c^2=1 per distinct argument term (real mode).
func (m *Machine) mathSinCos(x value, sin bool) value {
	sf, ok := x.(symFloat)
	if !ok {
		if sin {
			return math.Sin(x.(float64))
		}
		return math.Cos(x.(float64))
	}
	if m.mode != ModeReal {
		panic(pathEnd{status: StUnsupported, msg: "Sin/Cos symbolic in fp mode"})
	}
	s := m.freshInternal("sin", sf.t, sortReal)
	c := m.freshInternal("cos", sf.t, sortReal)
	one := m.tt.RealLit(1)
	m.addPC(m.tt.Eq(m.tt.App("+", sortReal, m.tt.App("*", sortReal, s, s), m.tt.App("*", sortReal, c, c)), one))
	if sin {
		return symFloat{s, 64}
	}
	return symFloat{c, 64}
}

func (m *Machine) insertionSort(n int, less func(i, j int) bool, swap func(i, j int)) {
	for i := 1; i < n; i++ {
		for j := i; j > 0 && less(j, j-1); j-- {
			swap(j, j-1)
		}
	}
}

func (m *Machine) numCPU() value {
	w := m.h.Params["W"]
	if w <= 0 {
		w = 2
	}
	if m.h.ncpu != nil {
		return m.h.ncpu
	}
	t := m.newInput("numcpu", "int64", sortBV(64))
	m.addPC(m.tt.App("bvsge", sortBool, t, m.tt.BVLit(1, 64)))
	m.addPC(m.tt.App("bvsle", sortBool, t, m.tt.BVLit(uint64(w), 64)))
	return int(m.concretize(symInt{t, types.Int}, "numcpu"))
}

func (m *Machine) wgCounter(p *value) *int {
	if m.wg == nil {
		m.wg = map[*value]*int{}
	}
	c, ok := m.wg[p]
	if !ok {
		c = new(int)
		m.wg[p] = c
	}
	return c
}

// memoCall: Ackermannised uninterpreted function.
func (m *Machine) memoCall(label string, args []value, kind string) value {
	var ats []*Term
	for _, a := range args {
		switch {
		case isFloatVal(a):
			ats = append(ats, m.floatTerm(a))
		case isIntVal(a):
			ats = append(ats, m.intTerm(a))
		default:
			ats = append(ats, m.boolTerm(a))
		}
	}
	var srt Sort
	switch kind {
	case "bool":
		srt = sortBool
	case "f64":
		srt = m.floatSort(64)
	default:
		srt = sortBV(64)
	}
	// identical argument terms: the earlier answer is the answer (the replay
	// vector still gets an entry for this call, bound to the same symbol)
	for _, prev := range m.memo[label] {
		if len(prev.args) != len(ats) {
			continue
		}
		identical := true
		for i := range ats {
			// identical terms are identical bit patterns, and the memoised
			// function is deterministic, so this holds for NaN arguments too
			if ats[i] != prev.args[i] {
				identical = false
				break
			}
		}
		if identical {
			m.inputs = append(m.inputs, InputRec{Label: label, Kind: kind, term: prev.ans, argTerms: ats})
			switch kind {
			case "bool":
				return symBool{prev.ans}
			case "f64":
				return symFloat{prev.ans, 64}
			}
			return symInt{prev.ans, types.Int}
		}
	}
	ans := m.newInput(label, kind, srt)
	m.inputs[len(m.inputs)-1].argTerms = ats
	if kind == "f64" && m.mode == ModeFP {
		m.addPC(m.tt.Not(m.tt.App("fp.isNaN", sortBool, ans)))
		m.addPC(m.tt.Not(m.tt.App("fp.isInfinite", sortBool, ans)))
	}
	for _, prev := range m.memo[label] {
		if len(prev.args) != len(ats) {
			continue
		}
		same := m.tt.True()
		for i := range ats {
			if ats[i] == prev.args[i] {
				continue
			}
			if ats[i].sort.K == SFP {
				if ats[i].isLit && prev.args[i].isLit {
					// two different literals (hash-consed): equal only as +0/-0
					a, aok := args[i].(float64)
					b, bok := prev.vals[i].(float64)
					if aok && bok {
						if a != b {
							same = m.tt.False()
						}
						continue
					}
				}
				same = m.tt.And(same, m.tt.App("fp.eq", sortBool, ats[i], prev.args[i]))
			} else {
				same = m.tt.And(same, m.tt.Eq(ats[i], prev.args[i]))
			}
		}
		var eq *Term
		if srt.K == SFP {
			eq = m.tt.Eq(ans, prev.ans)
		} else {
			eq = m.tt.Eq(ans, prev.ans)
		}
		m.addPC(m.tt.Implies(same, eq))
	}
	m.memo[label] = append(m.memo[label], memoEntry{args: ats, ans: ans, vals: append([]value(nil), args...)})
	switch kind {
	case "bool":
		return symBool{ans}
	case "f64":
		return symFloat{ans, 64}
	}
	return symInt{ans, types.Int}
}

func toNative(v value) interface{} {
	switch v := v.(type) {
	case iface:
		if v.t == nil {
			return nil
		}
		return toNative(v.v)
	case symBool, symInt, symFloat:
		return "<sym>"
	case bool, int, int8, int16, int32, int64, uint, uint8, uint16, uint32, uint64, uintptr, float32, float64, string, complex128:
		return v
	}
	return toString(v)
}

func nativeSprintf(format string, args []value) string {
	n := make([]interface{}, len(args))
	for i, a := range args {
		n[i] = toNative(a)
	}
	return fmt.Sprintf(format, n...)
}

// newError builds an error value of the dynamic type *errors.errorString.
func (m *Machine) newError(msg string) value {
	t := m.eng.errorStringPtr
	var cell value = structure{msg}
	return iface{t: t, v: &cell}
}
