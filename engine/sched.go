package main

// Cooperative deterministic scheduler: every interpreted goroutine is a real
// goroutine, but exactly one runs at a time. A goroutine runs until it blocks
// (channel op, WaitGroup.Wait, Mutex.Lock) or finishes; then the next runnable
// one (round-robin by creation order) is resumed. One schedule per path.

import (
	"fmt"
	"go/token"
	"go/types"
	"runtime/debug"

	"golang.org/x/tools/go/ssa"
)

type gor struct {
	id      int
	resume  chan struct{}
	done    bool
	canRun  func() bool // nil = runnable
	what    string
	exit    chan struct{}
}

type scheduler struct {
	gors    []*gor
	cur     *gor
	killed  bool
	mainEnd chan struct{}
	outcome interface{} // panic value that ended the path (pathEnd / engineFault / targetPanic) or nil
}

type schan struct {
	cap    int
	buf    []value
	closed bool
	elem   types.Type
	// rendezvous for unbuffered channels
	recvWaiting int
	handoff     []value
}

func (m *Machine) newSched() {
	m.sched = &scheduler{mainEnd: make(chan struct{})}
}

// runMain runs fn as goroutine 0 and returns the panic value that ended the
// path (nil for normal return).
func (m *Machine) runMain(body func()) interface{} {
	m.newSched()
	s := m.sched
	g := &gor{id: 0, resume: make(chan struct{}, 1)}
	s.gors = append(s.gors, g)
	s.cur = g
	go func() {
		<-g.resume
		defer func() {
			r := recover()
			if _, k := r.(killGoroutine); k {
				r = nil
			}
			if r != nil && s.outcome == nil {
				if _, ok := r.(pathEnd); !ok {
					if _, ok := r.(targetPanic); !ok {
						if _, ok := r.(engineFault); !ok {
							r = engineFault{fmt.Sprintf("%v\n%s", r, debug.Stack())}
						}
					}
				}
				s.outcome = r
			}
			g.done = true
			close(s.mainEnd)
		}()
		body()
	}()
	g.resume <- struct{}{}
	<-s.mainEnd
	// kill parked goroutines
	s.killed = true
	for _, og := range s.gors {
		if og != g {
			if !og.done {
				og.resume <- struct{}{}
			}
			<-og.exit
		}
	}
	return s.outcome
}

func (m *Machine) spawn(fn value, args []value, pos token.Pos) {
	s := m.sched
	g := &gor{id: len(s.gors), resume: make(chan struct{}, 1), exit: make(chan struct{})}
	s.gors = append(s.gors, g)
	go func() {
		defer close(g.exit)
		<-g.resume
		if s.killed {
			g.done = true
			return
		}
		defer func() {
			r := recover()
			g.done = true
			if _, k := r.(killGoroutine); k {
				return
			}
			if r != nil {
				// a panic (or path end) in a child goroutine ends the whole path
				if s.outcome == nil {
					switch r.(type) {
					case pathEnd, targetPanic, engineFault:
					default:
						r = engineFault{fmt.Sprintf("%v\n%s", r, debug.Stack())}
					}
					s.outcome = r
				}
				// wake main so that it unwinds
				s.killed = true
				m.switchTo(s.gors[0], g, true)
				return
			}
			// normal termination: pass the baton
			m.yieldFrom(g, true)
		}()
		m.call(nil, pos, fn, args)
	}()
}

// switchTo resumes target and parks self (unless selfDone).
func (m *Machine) switchTo(target, self *gor, selfDone bool) {
	s := m.sched
	s.cur = target
	target.resume <- struct{}{}
	if selfDone {
		return
	}
	<-self.resume
	if s.killed {
		panic(killGoroutine{})
	}
	s.cur = self
}

// yieldFrom picks the next runnable goroutine after self.
func (m *Machine) yieldFrom(self *gor, selfDone bool) {
	s := m.sched
	n := len(s.gors)
	if m.exploreSched && !s.killed {
		// schedule exploration: any runnable goroutine may be next
		var runnable []*gor
		for _, g := range s.gors {
			if g.done || g == self {
				continue
			}
			if g.canRun != nil && !g.canRun() {
				continue
			}
			runnable = append(runnable, g)
		}
		if len(runnable) > 1 {
			c := m.chooseFree(len(runnable))
			m.switchTo(runnable[c], self, selfDone)
			return
		}
	}
	for k := 1; k <= n; k++ {
		g := s.gors[(self.id+k)%n]
		if g.done || (g == self && selfDone) {
			continue
		}
		if g.canRun != nil && !g.canRun() {
			continue
		}
		if g == self {
			return // we are runnable ourselves
		}
		m.switchTo(g, self, selfDone)
		return
	}
	// nobody can run
	if selfDone {
		// last runnable goroutine finished while others are blocked forever;
		// if main is among the blocked ones this is a deadlock.
		if !s.gors[0].done {
			if s.outcome == nil {
				s.outcome = pathEnd{status: StDeadlock, msg: "all goroutines are asleep"}
			}
			s.killed = true
			s.cur = s.gors[0]
			s.gors[0].resume <- struct{}{}
		}
		return
	}
	panic(pathEnd{status: StDeadlock, msg: "all goroutines are asleep (" + self.what + ")"})
}

// block parks the current goroutine until cond() holds.
func (m *Machine) block(what string, cond func() bool) {
	s := m.sched
	self := s.cur
	for !cond() {
		self.canRun = cond
		self.what = what
		m.yieldFrom(self, false)
		self.canRun = nil
	}
}

func (m *Machine) chanSend(c *schan, v value) {
	m.preempt()
	defer m.record("chansend", c, 0)
	if c == nil {
		m.block("send on nil channel", func() bool { return false })
	}
	if c.closed {
		panic(targetPanic{v: "send on closed channel"})
	}
	v = copyVal(v)
	if c.cap > 0 {
		m.block("chan send", func() bool { return len(c.buf) < c.cap || c.closed })
		if c.closed {
			panic(targetPanic{v: "send on closed channel"})
		}
		c.buf = append(c.buf, v)
		return
	}
	// unbuffered: wait for a receiver, then hand off
	m.block("chan send", func() bool { return c.recvWaiting > len(c.handoff) || c.closed })
	if c.closed {
		panic(targetPanic{v: "send on closed channel"})
	}
	c.handoff = append(c.handoff, v)
}

func (m *Machine) chanRecv(c *schan) (value, bool) {
	m.preempt()
	defer m.record("chanrecv", c, 0)
	if c == nil {
		m.block("receive on nil channel", func() bool { return false })
	}
	if c.cap > 0 {
		m.block("chan recv", func() bool { return len(c.buf) > 0 || c.closed })
		if len(c.buf) > 0 {
			v := c.buf[0]
			c.buf = c.buf[1:]
			return v, true
		}
		return nil, false
	}
	c.recvWaiting++
	m.block("chan recv", func() bool { return len(c.handoff) > 0 || c.closed })
	c.recvWaiting--
	if len(c.handoff) > 0 {
		v := c.handoff[0]
		c.handoff = c.handoff[1:]
		return v, true
	}
	return nil, false
}

func (m *Machine) chanClose(c *schan) {
	m.preempt()
	m.record("chansend", c, 0)
	if c == nil {
		panic(targetPanic{v: "close of nil channel"})
	}
	if c.closed {
		panic(targetPanic{v: "close of closed channel"})
	}
	c.closed = true
}

func (m *Machine) selectOp(instr *ssa.Select, fr *frame) value {
	type st struct {
		c    *schan
		send bool
		v    value
	}
	var states []st
	for _, s := range instr.States {
		c, _ := fr.get(s.Chan).(*schan)
		x := st{c: c, send: s.Dir == types.SendOnly}
		if x.send {
			x.v = fr.get(s.Send)
		}
		states = append(states, x)
	}
	ready := func() int {
		for i, s := range states {
			if s.c == nil {
				continue
			}
			if s.send {
				if s.c.closed || (s.c.cap > 0 && len(s.c.buf) < s.c.cap) || (s.c.cap == 0 && s.c.recvWaiting > len(s.c.handoff)) {
					return i
				}
			} else {
				if s.c.closed || len(s.c.buf) > 0 || len(s.c.handoff) > 0 {
					return i
				}
			}
		}
		return -1
	}
	chosen := ready()
	if chosen < 0 && instr.Blocking {
		for _, s := range states {
			if !s.send && s.c != nil && s.c.cap == 0 {
				s.c.recvWaiting++
			}
		}
		m.block("select", func() bool { return ready() >= 0 })
		for _, s := range states {
			if !s.send && s.c != nil && s.c.cap == 0 {
				s.c.recvWaiting--
			}
		}
		chosen = ready()
	}
	r := tuple{chosen, false}
	var recvVal value
	recvOk := false
	if chosen >= 0 {
		s := states[chosen]
		if s.send {
			if s.c.closed {
				panic(targetPanic{v: "send on closed channel"})
			}
			if s.c.cap > 0 {
				s.c.buf = append(s.c.buf, copyVal(s.v))
			} else {
				s.c.handoff = append(s.c.handoff, copyVal(s.v))
			}
		} else {
			if len(s.c.buf) > 0 {
				recvVal, recvOk = s.c.buf[0], true
				s.c.buf = s.c.buf[1:]
			} else if len(s.c.handoff) > 0 {
				recvVal, recvOk = s.c.handoff[0], true
				s.c.handoff = s.c.handoff[1:]
			}
		}
	}
	r[1] = recvOk
	for i, s := range instr.States {
		if s.Dir == types.RecvOnly {
			var v value
			if i == chosen && recvOk {
				v = recvVal
			} else {
				v = zero(s.Chan.Type().Underlying().(*types.Chan).Elem())
			}
			r = append(r, v)
		}
	}
	return r
}
