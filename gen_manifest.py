#!/usr/bin/env python3
"""Generate MANIFEST.json from props.json + propmeta.json (run after editing either)."""
import json, os
here = os.path.dirname(os.path.abspath(__file__))
props = json.load(open(os.path.join(here, 'props.json')))
meta = json.load(open(os.path.join(here, 'propmeta.json')))
all_ids = [json.loads(l)['id'] for l in open(os.path.join(here, 'properties.jsonl'))]
claimed = {p['id']: p for p in props if p.get('harnesses')}
checks = []
for pid in all_ids:
    if pid not in claimed:
        continue
    m = meta.get(pid, {})
    checks.append({
        "property_id": pid,
        "quick_cmd": f"./vpcheck {pid} --tier quick",
        "thorough_cmd": f"./vpcheck {pid} --tier thorough",
        "evidence_file": f"/verif/evidence/{pid}.json",
        "replay_cmd_template": f"./vpcheck {pid} --replay {{path}}",
        "engine": "symgo",
        "level_claimed": {
            "category": "model_checking",
            "text": m.get("text", "bounded symbolic execution of the real functions; z3 decides each assertion for every input inside the stated bounds"),
            "design_ref": m.get("design_ref", "DESIGN.md §3 " + pid),
        },
        "level_note": m.get("note", "") + " Outside the claim: " + claimed[pid].get("outside", ""),
        "technique": "bounded symbolic execution of go/ssa (own interpreter) + z3 SMT; counterexamples replayed natively",
    })
na = []
for pid in all_ids:
    if pid not in claimed:
        na.append({"property_id": pid, "reason": meta.get(pid, {}).get("na_reason", "no check registered yet (work in progress)")})
manifest = {
    "version": 1,
    "setup_cmd": "cd /verif/engine && GOFLAGS=-mod=mod GOPROXY=off GOSUMDB=off GOTOOLCHAIN=local go build -o /verif/bin/symgo .",
    "hooks": {
        "guard": "verif",
        "enable": "harness files (//go:build verif) and the internal/vp package are injected with go/packages Overlay (symbolic run) and `go test -tags verif -overlay` (native replay); nothing is committed to /repo. Two recorded source cuts (/verif/cuts.json: a constant becomes a harness variable with the same default) are applied to the current /repo files through the same overlay on every run and listed in each evidence file",
        "baseline_off_cmd": "cd /repo && go test -mod=mod -vet=off -count=1 -timeout 25m ./...",
        "source_commits": [],
        "add_only": True,
    },
    "engines": [{
        "name": "symgo",
        "path": "/verif/engine",
        "serves_properties": [c["property_id"] for c in checks],
        "kind_free_text": "symbolic interpreter for go/ssa (x/tools v0.29.0) written for this task; SMT-LIB2 to a persistent z3 (5.1.0 `z3-new`, 4.8.12 as second opinion); re-executes paths from decision prefixes on a worker pool; native replay of models with go test -overlay",
    }],
    "checks": checks,
    "not_applicable": na,
    "notes": "Exit codes: 0 = every harness decided, no unlisted violation; 1 = replay-confirmed violation not in known_findings.txt (VIOLATION line); 3 = inconclusive (solver unknown, unwind bound, unsupported construct, vacuous harness, non-reproducing model) — never reported as a pass.",
}
json.dump(manifest, open(os.path.join(here, 'MANIFEST.json'), 'w'), indent=1)
print("claimed:", [c["property_id"] for c in checks], "n/a:", [n["property_id"] for n in na])
