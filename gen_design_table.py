#!/usr/bin/env python3
"""Regenerates the per-harness list of DESIGN.md §A.2 (between the A2 markers) from props.json."""
import json,re
props=json.load(open('/verif/props.json'))
out=[]
out.append("Generated from `props.json` by `gen_design_table.py` (one line per harness: mode, quick-tier bounds, what the solver decides; thorough-tier bounds are in `props.json`).\n")
def fmt(insts):
    if not insts: return "-"
    return "; ".join(",".join(f"{k}={v}" for k,v in sorted(i.items())) or "-" for i in insts)
for p in props:
    hs=p.get('harnesses')
    if not hs: continue
    out.append(f"\n**{p['id']}** — outside the claim: {p.get('outside','')}\n")
    for h in hs:
        q=h.get('quick')
        tag=" (thorough tier only)" if h.get('thorough_only') else ""
        extra=""
        if h.get('solver'): extra+=f", solver {h['solver']}"
        out.append(f"* `{h['fn']}` [{h['pkg']}, {h['mode']}{extra}]{tag} — quick: {fmt(q)} — {h.get('what','')}")
s=open('/verif/DESIGN.md').read()
a,b='<!-- A2-BEGIN -->','<!-- A2-END -->'
i,j=s.index(a),s.index(b)
s=s[:i+len(a)]+"\n"+"\n".join(out)+"\n"+s[j:]
open('/verif/DESIGN.md','w').write(s)
print("ok",len(out))
